package stk

import (
	"fmt"
	"math/big"
	"sort"

	"pgregory.net/rapid"

	"github.com/Oneledger/protocol/action"
	agov "github.com/Oneledger/protocol/action/governance"
	astake "github.com/Oneledger/protocol/action/staking"
	"github.com/Oneledger/protocol/data/balance"
	"github.com/Oneledger/protocol/data/governance"
	"github.com/Oneledger/protocol/data/keys"

	"verif/hist"
	"verif/sim"
	"verif/txgen"
)

// Exclusion tags of the known findings owned by C10 / C11 / C19 (see known_findings.json).
const (
	ExclLastEligible   = "UNSTAKE:last-eligible-validator"     // C10: never let the set of electable validators become empty
	ExclForeignKey     = "STAKE:foreign-consensus-key"         // C10: never stake a record whose consensus key is someone else's or not ed25519
	ExclEarlyVerdict   = "ALLEGATION:verdict-before-window"    // C10/C19: no allegation while height <= blockVotesDiff
	ExclForeignWithdr  = "WITHDRAW:foreign-validator-address"  // C11: never name an address without a validator record in WITHDRAW
	ExclZeroPowerStake = "STAKE:zero-power-record"             // C11: never stake on a record whose previous-block power is 0
	ExclPurgedVerdict  = "ALLEGATION_VOTE:accused-not-elected" // C11: no votes on a request whose accused is not a settled elected validator (a verdict must not fall in the block that purges the accused)
	ExclGhostMember    = "UNSTAKE:to-zero-while-entering-set"  // C10: never unstake to zero a validator that is elected but not yet a settled member of the tendermint set
)

// AccusedSettled reports whether the validator is elected by the records with a margin: eligible
// and inside the top count without a tie at the boundary (so the block end will not purge it).
func AccusedSettled(w *hist.World, v *View, addr string) bool {
	settled := func(o StakingOpts) bool {
		el := Eligible(v, o)
		for i, r := range el {
			if r.Addr != addr {
				continue
			}
			if int64(i) >= o.Top {
				return false
			}
			if int64(len(el)) > o.Top && el[o.Top].Power == r.Power {
				return false
			}
			return true
		}
		return false
	}
	if w.P.Frankenstein != 0 && w.C.Height+1 <= w.P.Frankenstein {
		// a request can stay open across the fork block, which raises the minimum: the accused
		// must be electable under the forced values as well
		if !settled(ForkOpts(v.Staking)) {
			return false
		}
		if w.C.Height+1 == w.P.Frankenstein {
			return true
		}
	}
	return settled(v.Staking)
}

// FrozenServedBy returns a frozen validator that the stake account d has (or had) stake with
// ("" if none). The delegation store keeps the validator/delegator pairs after the validator
// record is gone, so the pairs are read from there.
func FrozenServedBy(v *View, d string) string {
	var vals []string
	for val, ds := range v.Locked {
		if _, ok := ds[d]; ok && v.IsFrozen(val) {
			vals = append(vals, val)
		}
	}
	for _, r := range v.Vals {
		if r.StakeAddr == d && v.IsFrozen(r.Addr) {
			vals = append(vals, r.Addr)
		}
	}
	if len(vals) == 0 {
		return ""
	}
	sort.Strings(vals)
	return vals[0]
}

// ZeroUnstakeSafe reports whether unstaking a validator's whole stake cannot leave it behind in
// the tendermint set: it is a member of all three pipeline sets (then the removal is issued in
// the block that deletes its record), or it is in none of them and not electable.
func ZeroUnstakeSafe(w *hist.World, v *View, addr string) bool {
	_, inL := InSet(w.C.Last, addr)
	_, inV := InSet(w.C.Vals, addr)
	_, inN := InSet(w.C.Next, addr)
	if inL && inV && inN {
		return true
	}
	if inL || inV || inN {
		return false
	}
	r := v.Vals[addr]
	if r == nil {
		return true
	}
	min := v.Staking.Min
	if w.P.Frankenstein > w.C.Height && min.Cmp(big.NewInt(500000)) > 0 {
		min = big.NewInt(500000)
	}
	return big.NewInt(r.Power).Cmp(min) < 0
}

// FocusParams draws a genesis configuration for focused staking / evidence histories.
// shape: "small" (genesis-sized options: top 1-5, maturity 1-4, candidates around the boundary)
// or "gov" (main-net sized options so that config-update proposals validate: top 8-10, min
// self delegation 500000, maturity 109200, 9-11 candidates).
func FocusParams(t *rapid.T, seedTag, shape string, excl func(string) bool) sim.Params {
	p := sim.DefaultParams()
	u := hist.NewU(t)
	p.Seed = "f" + seedTag
	p.Witnesses = nil
	p.RewardPoolFund = "0"
	switch shape {
	case "gov":
		p.Frankenstein = int64(sample(u, []int{0, 0, 1}, "fork"))
		p.MinSelfDeleg = 500000
		p.TopCount = int64(sample(u, []int{9, 9, 10, 8}, "top"))
		p.Maturity = 109200
		nv := u.Range(6, 8, "nvals")
		p.ValPower = nil
		for i := 0; i < nv; i++ {
			p.ValPower = append(p.ValPower, 500000+int64(sample(u, []int{0, 0, 1, 2, 5, 100000, 100001, 200000}, "powd")))
		}
		p.ExtraVals = u.Range(2, 4, "extra")
		p.PropFundingDL = int64(u.Range(2, 6, "fdl"))
		p.PropVotingDL = int64(u.Range(2, 6, "vdl"))
		p.PropPassPct = sample(u, []int{51, 67}, "pass")
	default:
		switch u.Range(0, 9, "fork") {
		case 0:
			p.Frankenstein = 1
		case 1, 2:
			p.Frankenstein = int64(u.Range(3, 9, "forkh"))
		default:
			p.Frankenstein = 0
		}
		p.MinSelfDeleg = int64(sample(u, []int{10, 1000, 500000}, "minself"))
		p.TopCount = int64(u.Range(1, 5, "top"))
		p.Maturity = int64(u.Range(1, 4, "maturity"))
		nv := u.Range(1, 7, "nvals")
		p.ValPower = nil
		for i := 0; i < nv; i++ {
			base := p.MinSelfDeleg
			if p.Frankenstein != 0 && u.Range(0, 2, "abovefork") != 0 {
				base = 500000 // stays electable after the fork block forces the minimum to 500000
			}
			p.ValPower = append(p.ValPower, base+int64(sample(u, []int{0, 0, 1, 2, 5}, "powd")))
		}
		p.ExtraVals = u.Range(2, 3, "extra")
	}
	// a chain restarted from an exported state carries the delegation store's snapshot next to the staking list
	p.CarryStakeSnapshot = u.N(4, "carrystake") == 0
	p.Evidence.BlockVotesDiff = int64(u.Range(2, 5, "bvd"))
	p.Evidence.MinVotesRequired = int64(u.Range(1, int(p.Evidence.BlockVotesDiff), "mvr"))
	if u.Range(0, 2, "lenientvotes") != 0 {
		p.Evidence.MinVotesRequired = 1
	}
	p.Evidence.ValidatorReleaseTime = int64(sample(u, []int{0, 0, 1}, "reltime"))
	p.Evidence.PenaltyBasePercentage = int64(sample(u, []int{30, 10, 33, 25}, "penpct"))
	p.Evidence.ValidatorVotePercentage = int64(sample(u, []int{50, 50, 67, 100}, "votepct"))
	p.Evidence.AllegationPercentage = int64(sample(u, []int{50, 50, 34, 66}, "allegpct"))
	p.Evidence.PenaltyBountyPercentage = int64(sample(u, []int{50, 50, 100, 0}, "bountypct"))
	p.Evidence.PenaltyBurnPercentage = 100 - p.Evidence.PenaltyBountyPercentage
	// the shares are fractions percentage/decimals with decimals of their own: "13.43 %, stored as 1343 / 10000"
	if bd := int64(sample(u, []int{100, 100, 100, 1000, 10000}, "bountydec")); bd != 100 {
		p.Evidence.PenaltyBountyPercentage *= bd / 100
		p.Evidence.PenaltyBurnPercentage *= bd / 100
		p.Evidence.PenaltyBountyDecimals, p.Evidence.PenaltyBurnDecimals = bd, bd
		if p.Evidence.PenaltyBountyPercentage > 0 && sample(u, []int{0, 1}, "bountyodd") == 1 {
			p.Evidence.PenaltyBountyPercentage = bd*1343/10000 + 1
			p.Evidence.PenaltyBurnPercentage = bd - p.Evidence.PenaltyBountyPercentage
		}
	}
	if pd := int64(sample(u, []int{100, 100, 100, 1000, 10000}, "basedec")); pd != 100 {
		p.Evidence.PenaltyBasePercentage *= pd / 100
		p.Evidence.PenaltyBaseDecimals = pd
	}
	ProtectParams(&p, excl)
	return p
}

// ProtectParams applies the by-construction part of the last-eligible exclusion to a genesis:
// the anchor validator (index 0) stays electable under every option value a history can reach
// (fork block and governance raise the minimum self delegation to at most 600000), and the
// missed-votes rule cannot freeze a validator merely for having been re-elected (a validator
// elected at E first shows up in the commit votes of block E+3, so at the end of its grace
// period it can hold at most blockVotesDiff-2 votes).
func ProtectParams(p *sim.Params, excl func(string) bool) {
	if excl == nil {
		return
	}
	if p.ValPower[0] < 700000 && (p.Frankenstein != 0 || p.Maturity >= 100000) && excl(ExclLastEligible) {
		p.ValPower[0] = 700000 + p.ValPower[0]%7
	}
	lim := p.Evidence.BlockVotesDiff - 2
	if lim < 1 {
		lim = 1
	}
	if p.Evidence.MinVotesRequired > lim && excl(ExclLastEligible) {
		p.Evidence.MinVotesRequired = lim
	}
}

// Focus draws staking / evidence transactions that reach deep states in short histories.
type Focus struct {
	W    *hist.World
	T    *rapid.T
	U    *hist.U // approximately uniform draws (rapid's own integer generators favour small values)
	Excl func(string) bool
	Wt   map[string]int // weight per action; missing = 0
	Max  int            // max actions per block
	Feat map[string]int

	reqN    int
	intent  map[string]int8 // request id -> intended choice (0 = mixed)
	gov     govFlow
	planned map[string]int64 // planned power per validator while a block is being drawn
	low     map[string]int64 // the same, counting planned unstakes only (a planned stake may be refused)
	opened  []plannedReq     // requests opened in the block being drawn
	used    map[string]bool  // (request, voter) pairs already voted in the block being drawn

	lastView  *View // the view the last block was drawn from (DrawEnv draws the mempool's other content from it)
	down      []int // validators whose node is down from height downFrom on (absent from every commit)
	downFrom  int64
	downDrawn bool
}

type plannedReq struct{ id, accused string }

type govFlow struct {
	stage   int                   // 0 idle, 1 created+funded (vote next), 2 voted
	twin    governance.ProposalID // a second proposal that shares the first one's schedule ("" = none)
	id      governance.ProposalID
	n       int
	started int64
}

func (f *Focus) u() *hist.U {
	if f.U == nil {
		f.U = hist.NewU(f.T)
	}
	return f.U
}

func (f *Focus) rng(lo, hi int, label string) int { return f.u().Range(lo, hi, label) }

// sample picks uniformly from xs.
func sample[T any](u *hist.U, xs []T, label string) T { return xs[u.N(len(xs), label)] }

func (f *Focus) excl(tag string) bool { return f.Excl != nil && f.Excl(tag) }

func (f *Focus) pct(p int, label string) bool {
	return p > 0 && f.u().N(100, label) < p
}

func (f *Focus) feat(k string) {
	if f.Feat != nil {
		f.Feat[k]++
	}
}

// AnchorAddr is the validator that the last-eligible exclusion protects.
func AnchorAddr(w *hist.World) string { return w.G.U.Vals[0].Key.Addr.String() }

func (f *Focus) valByAddr(a string) *sim.Val {
	for _, v := range f.W.G.U.Vals {
		if v.Key.Addr.String() == a {
			return v
		}
	}
	return nil
}

func (f *Focus) acctByAddr(a string) *sim.User {
	u := f.W.G.U
	for _, x := range u.Users {
		if x.Addr.String() == a {
			return x
		}
	}
	for _, v := range u.Vals {
		if v.Stake.Addr.String() == a {
			return v.Stake
		}
		if v.Key.Addr.String() == a {
			return v.Key
		}
	}
	return nil
}

// effMin is the minimum self delegation in force for the block being drawn.
func (f *Focus) effOpts(v *View) StakingOpts {
	o := v.Staking
	h := f.W.C.Height + 1
	if f.W.P.Frankenstein != 0 && h == f.W.P.Frankenstein {
		o = ForkOpts(o)
	}
	return o
}

// targets returns interesting power values: around the minimum, around the top-count boundary, ties.
func (f *Focus) targets(v *View) []int64 {
	o := f.effOpts(v)
	min := o.Min.Int64()
	t := []int64{min - 1, min, min, min + 1, min + 2}
	el := Eligible(v, o)
	if n := int(o.Top); n >= 1 && len(el) >= n {
		b := el[n-1].Power
		t = append(t, b-1, b, b, b+1)
		if len(el) > n {
			c := el[n].Power
			t = append(t, c, c+1)
		}
	}
	for _, r := range el {
		t = append(t, r.Power)
	}
	if f.W.P.Frankenstein > f.W.C.Height+1 {
		t = append(t, 499999, 500000, 500001)
	}
	var out []int64
	for _, x := range t {
		if x > 0 {
			out = append(out, x)
		}
	}
	return out
}

func (f *Focus) eligiblePlanned(v *View, except string) int {
	o := f.effOpts(v)
	n := 0
	for a, p := range f.planned {
		if a == except || v.IsFrozen(a) {
			continue
		}
		if big.NewInt(p).Cmp(o.Min) >= 0 {
			n++
		}
	}
	return n
}

func wholeAmt(n int64) action.Amount { return txgen.Amt("OLT", big.NewInt(n)) }

// ---- staking ----

func (f *Focus) stakeNew(v *View) []txgen.Tx {
	var cands []*sim.Val
	for _, x := range f.W.G.U.Vals {
		if v.Vals[x.Key.Addr.String()] == nil {
			cands = append(cands, x)
		}
	}
	if len(cands) == 0 {
		return f.stakeTop(v)
	}
	val := cands[f.rng(0, len(cands)-1, "newval")]
	tg := f.targets(v)
	amt := tg[f.rng(0, len(tg)-1, "target")]
	acct := val.Stake
	tags := []string{"stake-new"}
	// an own stake account, a user account, or the stake account of another validator
	switch f.rng(0, 9, "acct") {
	case 0, 1:
		acct = f.W.G.U.Users[f.rng(0, len(f.W.G.U.Users)-1, "user")]
		tags = append(tags, "stake-addr-user")
	case 2:
		recs := v.SortedVals()
		if len(recs) > 0 {
			if a := f.acctByAddr(recs[f.rng(0, len(recs)-1, "shared")].StakeAddr); a != nil {
				acct = a
				tags = append(tags, "stake-addr-shared")
			}
		}
	}
	if locked := v.TotalOf(val.Key.Addr.String()); locked.Sign() > 0 && f.excl(ExclZeroPowerStake) {
		return nil
	}
	tx := txgen.Stake(val, acct.Addr, wholeAmt(amt), f.W.Fee, f.W.Memo(), acct, val.Key)
	tx.Tags = tags
	f.planned[val.Key.Addr.String()] = amt
	return []txgen.Tx{tx}
}

func (f *Focus) pickRec(v *View, label string) *ValRec {
	recs := v.SortedVals()
	if len(recs) == 0 {
		return nil
	}
	return recs[f.rng(0, len(recs)-1, label)]
}

func (f *Focus) stakeTop(v *View) []txgen.Tx {
	r := f.pickRec(v, "topval")
	if r == nil {
		return nil
	}
	val, acct := f.valByAddr(r.Addr), f.acctByAddr(r.StakeAddr)
	if val == nil || acct == nil {
		return nil
	}
	if r.Power <= 0 && f.excl(ExclZeroPowerStake) {
		return nil
	}
	cur := f.planned[r.Addr]
	amt := int64(f.rng(1, 6, "small"))
	tags := []string{"stake-top"}
	if f.rng(0, 2, "shape") != 0 {
		tg := f.targets(v)
		if t := tg[f.rng(0, len(tg)-1, "target")]; t > cur {
			amt = t - cur
		}
	}
	if f.pct(4, "otheracct") {
		// someone else's account as stake address: must be refused while the current one is in use
		acct = f.W.G.U.Users[f.rng(0, len(f.W.G.U.Users)-1, "user")]
		tags = append(tags, "stake-addr-other")
	}
	if v.Purged[r.Addr] > 0 && f.W.C.Height+1-v.Purged[r.Addr] <= 3 {
		tags = append(tags, "restake-after-purge")
	}
	tx := txgen.Stake(val, acct.Addr, wholeAmt(amt), f.W.Fee, f.W.Memo(), acct, val.Key)
	tx.Tags = tags
	f.planned[r.Addr] = cur + amt
	return []txgen.Tx{tx}
}

func (f *Focus) unstake(v *View) []txgen.Tx {
	r := f.pickRec(v, "unval")
	if r == nil {
		return nil
	}
	val, acct := f.valByAddr(r.Addr), f.acctByAddr(r.StakeAddr)
	if val == nil || acct == nil {
		return nil
	}
	cur := f.planned[r.Addr]
	if cur <= 0 {
		return nil
	}
	amt := int64(f.rng(1, 5, "small"))
	tags := []string{"unstake"}
	switch f.rng(0, 5, "shape") {
	case 0:
		amt = cur
		tags = append(tags, "unstake-all")
	case 1, 2:
		tg := f.targets(v)
		if t := tg[f.rng(0, len(tg)-1, "target")]; t < cur {
			amt = cur - t
		}
	case 3:
		amt = cur + 1
		tags = append(tags, "amt-over")
	}
	if amt > cur {
		amt = cur + 1
	}
	o := f.effOpts(v)
	after := f.low[r.Addr] - amt
	if big.NewInt(after).Cmp(o.Min) < 0 || (f.W.P.Frankenstein > f.W.C.Height && after < 700000) || f.W.P.Maturity >= 100000 && after < 700000 {
		// would drop below the minimum (now, or after a fork / governance change of the minimum)
		if r.Addr == AnchorAddr(f.W) && f.excl(ExclLastEligible) {
			return nil
		}
	}
	if amt == cur && !ZeroUnstakeSafe(f.W, v, r.Addr) && f.excl(ExclGhostMember) {
		return nil
	}
	tx := txgen.Unstake(val.Key.Addr, acct.Addr, wholeAmt(amt), f.W.Fee, f.W.Memo(), acct, val.Key)
	tx.Tags = tags
	if amt <= cur {
		f.planned[r.Addr] = cur - amt
		f.low[r.Addr] -= amt
	}
	return []txgen.Tx{tx}
}

// delegators returns the stake addresses that hold anything in the delegation store (sorted).
func delegators(v *View) []string {
	m := map[string]bool{}
	for d, a := range v.Bounded {
		if a.Sign() > 0 {
			m[d] = true
		}
	}
	for _, es := range v.Mature {
		for _, e := range es {
			m[e.Deleg] = true
		}
	}
	for d, a := range v.DelegEff {
		if a.Sign() > 0 {
			m[d] = true
		}
	}
	var out []string
	for d := range m {
		out = append(out, d)
	}
	sort.Strings(out)
	return out
}

func (f *Focus) withdraw(v *View, foreign bool) []txgen.Tx {
	ds := delegators(v)
	if len(ds) == 0 {
		return nil
	}
	// prefer delegators with a withdrawable amount
	var rich []string
	for _, d := range ds {
		if v.BoundedOf(d).Sign() > 0 {
			rich = append(rich, d)
		}
	}
	d := ds[f.rng(0, len(ds)-1, "deleg")]
	if len(rich) > 0 && f.rng(0, 4, "rich") != 0 {
		d = rich[f.rng(0, len(rich)-1, "richd")]
	}
	acct := f.acctByAddr(d)
	if acct == nil {
		return nil
	}
	b := v.BoundedOf(d).Int64()
	pending := int64(0)
	for _, es := range v.Mature {
		for _, e := range es {
			if e.Deleg == d {
				pending += e.Amount.Int64()
			}
		}
	}
	amt := int64(1)
	tags := []string{"withdraw"}
	switch {
	case b > 0:
		switch f.rng(0, 5, "wshape") {
		case 0:
			amt = b + 1
			tags = append(tags, "amt-over")
		case 1, 2:
			amt = int64(f.rng(1, int(b), "part"))
		default:
			amt = b
		}
	case pending > 0:
		amt = int64(f.rng(1, int(pending), "early"))
		tags = append(tags, "withdraw-early")
	default:
		tags = append(tags, "withdraw-nothing")
	}
	// the validator named: the one this account stakes for
	var named *sim.Val
	for _, r := range v.SortedVals() {
		if r.StakeAddr == d {
			named = f.valByAddr(r.Addr)
			break
		}
	}
	if named == nil {
		for _, x := range f.W.G.U.Vals {
			if x.Stake.Addr.String() == d {
				named = x
			}
		}
	}
	valAddr, valKey := keys.Address(nil), (*sim.User)(nil)
	if named != nil {
		valAddr, valKey = named.Key.Addr, named.Key
	}
	if fz := FrozenServedBy(v, d); fz != "" && (foreign || named == nil || named.Key.Addr.String() != fz) && f.excl(ExclForeignWithdr) {
		// while a validator of this account is frozen, only name that validator (the application refuses)
		named = f.valByAddr(fz)
		if named == nil {
			return nil
		}
		valAddr, valKey = named.Key.Addr, named.Key
		foreign = false
	}
	if foreign || named == nil {
		// an address without a validator record, whose key the delegator controls
		u := f.W.G.U.Users[f.rng(0, len(f.W.G.U.Users)-1, "fakeval")]
		valAddr, valKey = u.Addr, u
		tags = append(tags, "val-foreign")
	}
	tx := txgen.WithdrawStake(valAddr, acct.Addr, wholeAmt(amt), f.W.Fee, f.W.Memo(), acct, valKey)
	tx.Tags = tags
	return []txgen.Tx{tx}
}

// stakeHostileKey stakes a new record whose consensus key is not the address owner's ed25519 key.
func (f *Focus) stakeHostileKey(v *View) []txgen.Tx {
	if f.excl(ExclForeignKey) {
		return nil
	}
	users := f.W.G.U.Users
	u := users[f.rng(0, len(users)-1, "hostuser")]
	if v.Vals[u.Addr.String()] != nil {
		return nil
	}
	o := f.effOpts(v)
	amt := o.Min.Int64() + int64(f.rng(0, 3, "d"))
	pub := u.Pub
	tag := "stake-key-own-" + u.Pub.KeyType.String()
	if recs := v.SortedVals(); len(recs) > 0 && f.rng(0, 1, "dupkey") == 0 {
		r := recs[f.rng(0, len(recs)-1, "dupof")]
		if val := f.valByAddr(r.Addr); val != nil {
			pub = val.Key.Pub
			tag = "stake-key-duplicate"
		}
	}
	m := astake.Stake{ValidatorAddress: u.Addr, StakeAddress: u.Addr, ValidatorPubKey: pub, ValidatorECDSAPubKey: f.W.G.U.Vals[0].EcdsaPub, NodeName: "x" + u.Name, Stake: wholeAmt(amt)}
	tx := txgen.Build("STAKE", action.STAKE, m, f.W.Fee, f.W.Memo(), u, u)
	tx.Tags = []string{tag}
	return []txgen.Tx{tx}
}

// ---- evidence ----

func (f *Focus) activeVals(v *View) []string {
	var out []string
	for _, a := range v.ActiveStatus() {
		if !v.IsFrozen(a) && f.valByAddr(a) != nil {
			out = append(out, a)
		}
	}
	return out
}

func (f *Focus) openReqs(v *View) []plannedReq {
	var out []plannedReq
	ids := make([]string, 0, len(v.Reqs))
	for id := range v.Reqs {
		ids = append(ids, id)
	}
	sort.Strings(ids)
	for _, id := range ids {
		out = append(out, plannedReq{id, v.Reqs[id].Accused})
	}
	return append(out, f.opened...)
}

func (f *Focus) allegation(v *View) []txgen.Tx {
	h := f.W.C.Height + 1
	if h <= v.Evidence.BlockVotesDiff && f.excl(ExclEarlyVerdict) {
		return nil
	}
	act := f.activeVals(v)
	recs := v.SortedVals()
	if len(recs) < 2 {
		return nil
	}
	var rep *sim.Val
	tags := []string{"alleg"}
	if len(act) > 0 && !f.pct(6, "rep-hostile") {
		rep = f.valByAddr(act[f.rng(0, len(act)-1, "rep")])
	} else {
		rep = f.W.G.U.Vals[f.rng(0, len(f.W.G.U.Vals)-1, "rep-any")]
		tags = append(tags, "reporter-any")
	}
	busy := map[string]bool{}
	for _, q := range f.openReqs(v) {
		busy[q.accused] = true
	}
	var accs []string
	for _, r := range recs {
		if r.Addr == rep.Key.Addr.String() || v.IsFrozen(r.Addr) || busy[r.Addr] {
			continue
		}
		if r.Addr == AnchorAddr(f.W) && f.excl(ExclLastEligible) {
			continue
		}
		accs = append(accs, r.Addr)
	}
	var acc string
	twice := false
	if len(f.opened) > 0 && f.pct(15, "acc-twice") {
		// a second report against a validator already reported in this block (the duplicate check of the
		// handler reads committed requests only): both are meant to reach their verdict together
		prev := f.opened[f.rng(0, len(f.opened)-1, "acc-twice-which")]
		if prev.accused != rep.Key.Addr.String() && f.valByAddr(prev.accused) != nil {
			acc, twice = prev.accused, true
			tags = append(tags, "same-accused-twice-in-block")
			f.intent[prev.id] = 1
		}
	}
	if twice {
	} else if len(accs) > 0 && !f.pct(5, "acc-hostile") {
		acc = accs[f.rng(0, len(accs)-1, "acc")]
	} else {
		r := recs[f.rng(0, len(recs)-1, "acc-any")]
		if r.Addr == AnchorAddr(f.W) && f.excl(ExclLastEligible) {
			return nil
		}
		acc = r.Addr
		tags = append(tags, "accused-any")
	}
	accV := f.valByAddr(acc)
	if accV == nil {
		return nil
	}
	f.reqN++
	id := fmt.Sprintf("r%d", f.reqN)
	if open := f.openReqs(v); len(open) > 0 && f.pct(4, "dupid") {
		id = open[f.rng(0, len(open)-1, "dup")].id
		tags = append(tags, "request-id-reused")
	}
	signer := rep.Key
	if f.pct(3, "outsider") {
		signer = f.W.G.U.Users[f.rng(0, len(f.W.G.U.Users)-1, "o")]
		tags = append(tags, "signer-other")
	}
	bh := h - int64(f.rng(0, 2, "bh"))
	if bh < 1 {
		bh = 1
	}
	tx := txgen.Allegation(signer, id, rep.Key.Addr, accV.Key.Addr, bh, "proof", f.W.Fee, f.W.Memo())
	tx.Tags = tags
	if twice {
		f.intent[id] = 1
		f.Feat["same-accused-reported-twice-in-one-block"]++
	}
	if f.intent[id] == 0 {
		f.intent[id] = int8(sample(f.u(), []int{1, 1, 1, 2, 2, 3}, "intent"))
	}
	f.opened = append(f.opened, plannedReq{id, acc})
	return []txgen.Tx{tx}
}

func (f *Focus) choiceFor(id string) int8 {
	switch f.intent[id] {
	case 1:
		return VoteYes
	case 2:
		return VoteNo
	}
	return int8(sample(f.u(), []int{1, 2}, "mixed"))
}

func (f *Focus) votersLeft(v *View, id string) []string {
	voted := map[string]bool{}
	if q := v.Reqs[id]; q != nil {
		for _, x := range q.Votes {
			voted[x.Addr] = true
		}
	}
	var out []string
	for _, a := range f.activeVals(v) {
		if !voted[a] && !f.used[id+"/"+a] {
			out = append(out, a)
		}
	}
	return out
}

func (f *Focus) voteTx(id, voter string, choice int8, tags ...string) txgen.Tx {
	val := f.valByAddr(voter)
	tx := txgen.AllegationVote(val.Key, id, val.Key.Addr, choice, f.W.Fee, f.W.Memo())
	tx.Tags = append([]string{"vote"}, tags...)
	f.used[id+"/"+voter] = true
	return tx
}

func (f *Focus) vote(v *View) []txgen.Tx {
	open := f.openReqs(v)
	if len(open) == 0 {
		return nil
	}
	q := open[f.rng(0, len(open)-1, "req")]
	left := f.votersLeft(v, q.id)
	if len(left) == 0 {
		return nil
	}
	if !AccusedSettled(f.W, v, q.accused) && f.excl(ExclPurgedVerdict) {
		return nil
	}
	voter := left[f.rng(0, len(left)-1, "voter")]
	out := []txgen.Tx{f.voteTx(q.id, voter, f.choiceFor(q.id))}
	if f.pct(15, "vote-dup") {
		out = append(out, f.voteTx(q.id, voter, f.choiceFor(q.id), "vote-duplicate"))
	}
	return out
}

// voteWave votes on every open request with about as many voters as a verdict needs, so that
// several requests are decided by the same block end.
func (f *Focus) voteWave(v *View) []txgen.Tx {
	var out []txgen.Tx
	nAct := len(f.activeVals(v))
	if nAct == 0 {
		return nil
	}
	e := v.Evidence
	req := 1
	if e.ValidatorVoteDecimals > 0 {
		req = int((int64(nAct)*e.ValidatorVotePercentage + e.ValidatorVoteDecimals - 1) / e.ValidatorVoteDecimals)
	}
	for _, q := range f.openReqs(v) {
		if !AccusedSettled(f.W, v, q.accused) && f.excl(ExclPurgedVerdict) {
			continue
		}
		left := f.votersLeft(v, q.id)
		k := req + f.rng(-1, 1, "wave-d")
		if k > len(left) {
			k = len(left)
		}
		for i := 0; i < k; i++ {
			j := f.rng(0, len(left)-1, "wave-voter")
			ch := f.choiceFor(q.id)
			out = append(out, f.voteTx(q.id, left[j], ch, "wave"))
			if f.pct(10, "wave-dup") {
				// the same validator votes a second time (must not count)
				out = append(out, f.voteTx(q.id, left[j], 3-ch, "vote-duplicate"))
			}
			left = append(left[:j:j], left[j+1:]...)
		}
	}
	return out
}

func (f *Focus) voteHostile(v *View) []txgen.Tx {
	open := f.openReqs(v)
	id := "r0"
	if len(open) > 0 {
		id = open[f.rng(0, len(open)-1, "req")].id
	}
	vals := f.W.G.U.Vals
	switch f.rng(0, 4, "hk") {
	case 0: // a validator that already voted votes again (other choice, new memo)
		if q := v.Reqs[id]; q != nil && len(q.Votes) > 0 {
			x := q.Votes[f.rng(0, len(q.Votes)-1, "dupvoter")]
			if f.valByAddr(x.Addr) != nil {
				return []txgen.Tx{f.voteTx(id, x.Addr, 3-x.Choice, "vote-duplicate")}
			}
		}
	case 1: // a candidate that is not active (no record, not elected, or frozen)
		var cands []*sim.Val
		act := map[string]bool{}
		for _, a := range f.activeVals(v) {
			act[a] = true
		}
		for _, x := range vals {
			if !act[x.Key.Addr.String()] {
				cands = append(cands, x)
			}
		}
		if len(cands) > 0 {
			x := cands[f.rng(0, len(cands)-1, "inactive")]
			return []txgen.Tx{f.voteTx(id, x.Key.Addr.String(), f.choiceFor(id), "voter-inactive")}
		}
	case 2: // an outsider signs for a validator
		x := vals[f.rng(0, len(vals)-1, "victim")]
		o := f.W.G.U.Users[f.rng(0, len(f.W.G.U.Users)-1, "o")]
		tx := txgen.AllegationVote(o, id, x.Key.Addr, VoteYes, f.W.Fee, f.W.Memo())
		tx.Tags = []string{"vote", "signer-other"}
		return []txgen.Tx{tx}
	case 3: // an outsider votes in its own name
		o := f.W.G.U.Users[f.rng(0, len(f.W.G.U.Users)-1, "o")]
		tx := txgen.AllegationVote(o, id, o.Addr, VoteYes, f.W.Fee, f.W.Memo())
		tx.Tags = []string{"vote", "voter-outsider"}
		return []txgen.Tx{tx}
	default: // choice outside the enumeration
		if left := f.votersLeft(v, id); len(left) > 0 {
			c := int8(sample(f.u(), []int{0, 3, -1, 127}, "badchoice"))
			val := f.valByAddr(left[0])
			tx := txgen.AllegationVote(val.Key, id, val.Key.Addr, c, f.W.Fee, f.W.Memo())
			tx.Tags = []string{"vote", "enum-out"}
			return []txgen.Tx{tx}
		}
	}
	return nil
}

func (f *Focus) release(v *View) []txgen.Tx {
	var frozen []string
	for a, fr := range v.Frozen {
		if fr.IsFrozen() && f.valByAddr(a) != nil {
			frozen = append(frozen, a)
		}
	}
	sort.Strings(frozen)
	var val *sim.Val
	tags := []string{"release"}
	if len(frozen) > 0 && !f.pct(10, "rel-any") {
		val = f.valByAddr(frozen[f.rng(0, len(frozen)-1, "frozen")])
	} else {
		val = f.W.G.U.Vals[f.rng(0, len(f.W.G.U.Vals)-1, "relval")]
		tags = append(tags, "release-any")
	}
	tx := txgen.Release(val.Key, val.Key.Addr, f.W.Fee, f.W.Memo())
	tx.Tags = tags
	return []txgen.Tx{tx}
}

// ---- governance: a config-update proposal carried from creation to finalisation ----

var govUpdates = []string{
	"stakingOptions.topValidatorCount:8", "stakingOptions.topValidatorCount:8", "stakingOptions.topValidatorCount:9",
	"stakingOptions.topValidatorCount:12", "stakingOptions.maturityTime:109300", "stakingOptions.maturityTime:200000",
	"stakingOptions.minSelfDelegationAmount:600000", "stakingOptions.minSelfDelegationAmount:500001",
	"stakingOptions.topValidatorCount:7", "stakingOptions.maturityTime:5",
}

func big10(s string) *big.Int { b, _ := new(big.Int).SetString(s, 10); return b }

func (f *Focus) govStep(v *View) []txgen.Tx {
	w := f.W
	h := w.C.Height + 1
	users := w.G.U.Users
	switch f.gov.stage {
	case 0:
		f.gov.n++
		f.gov.id = txgen.ProposalID(fmt.Sprintf("gov-%s-%d", w.P.Seed, f.gov.n))
		f.gov.started = h
		u := users[0]
		fundDL := h + w.P.PropFundingDL
		m := agov.CreateProposal{ProposalID: f.gov.id, ProposalType: governance.ProposalTypeConfigUpdate, Headline: "h", Description: "d", Proposer: u.Addr,
			InitialFunding: txgen.Amt("OLT", big10(w.P.PropInitialFunding)), FundingDeadline: fundDL, FundingGoal: balance.NewAmountFromBigInt(big10(w.P.PropFundingGoal)),
			VotingDeadline: fundDL + w.P.PropVotingDL, PassPercentage: w.P.PropPassPct, ConfigUpdate: sample(f.u(), govUpdates, "cfg")}
		c := txgen.ProposalCreate(u, m, w.Fee, w.Memo())
		c.Tags = []string{"gov-create", m.ConfigUpdate}
		fd := txgen.ProposalFund(users[1], f.gov.id, users[1].Addr, txgen.Amt("OLT", big10(w.P.PropFundingGoal)), w.Fee, w.Memo())
		fd.Tags = []string{"gov-fund"}
		f.gov.stage = 1
		f.feat("gov-proposal")
		out := []txgen.Tx{c, fd}
		f.gov.twin = ""
		if f.pct(35, "gov-twin") {
			// a second config update created, funded, voted on and therefore finalised together with the first: two
			// option updates (often of one family) take effect in one block
			f.gov.twin = txgen.ProposalID(fmt.Sprintf("gov-%s-%d-twin", w.P.Seed, f.gov.n))
			m2 := m
			m2.ProposalID = f.gov.twin
			m2.ConfigUpdate = sample(f.u(), govUpdates, "cfg2")
			c2 := txgen.ProposalCreate(users[2], withProposer(m2, users[2].Addr), w.Fee, w.Memo())
			c2.Tags = []string{"gov-create", "gov-twin", m2.ConfigUpdate}
			fd2 := txgen.ProposalFund(users[1], f.gov.twin, users[1].Addr, txgen.Amt("OLT", big10(w.P.PropFundingGoal)), w.Fee, w.Memo())
			fd2.Tags = []string{"gov-fund", "gov-twin"}
			out = append(out, c2, fd2)
			f.feat("gov-twin-proposal")
		}
		return out
	case 1:
		var out []txgen.Tx
		for _, r := range v.SortedVals() {
			val, acct := f.valByAddr(r.Addr), f.acctByAddr(r.StakeAddr)
			if val == nil || acct == nil || r.Power <= 0 {
				continue
			}
			op := governance.OPIN_POSITIVE
			if f.pct(8, "govno") {
				op = governance.OPIN_NEGATIVE
			}
			tx := txgen.ProposalVote(f.gov.id, acct.Addr, val.Key.Addr, op, w.Fee, w.Memo(), acct, val.Key)
			tx.Tags = []string{"gov-vote"}
			out = append(out, tx)
			if f.gov.twin != "" {
				tx2 := txgen.ProposalVote(f.gov.twin, acct.Addr, val.Key.Addr, op, w.Fee, w.Memo(), acct, val.Key)
				tx2.Tags = []string{"gov-vote", "gov-twin"}
				out = append(out, tx2)
			}
		}
		f.gov.stage = 2
		return out
	default:
		if h-f.gov.started > 8 {
			f.gov.stage = 0
		}
		if f.pct(30, "finalize-tx") {
			// finalisation is also reachable as a free transaction on the public router
			tx := txgen.ProposalFinalize(users[2], f.gov.id, users[2].Addr, w.Fee, w.Memo())
			tx.Tags = []string{"gov-finalize-tx"}
			return []txgen.Tx{tx}
		}
	}
	return nil
}

func withProposer(m agov.CreateProposal, a keys.Address) agov.CreateProposal {
	m.Proposer = a
	return m
}

func (f *Focus) send() []txgen.Tx {
	u := f.W.G.U.Users
	a, b := u[f.rng(0, len(u)-1, "from")], u[f.rng(0, len(u)-1, "to")]
	tx := txgen.Send(a, a.Addr, b.Addr, txgen.Amt("OLT", big.NewInt(int64(f.rng(1, 1000, "amt")))), f.W.Fee, f.W.Memo())
	return []txgen.Tx{tx}
}

var focusActions = []string{"stake_new", "stake_top", "unstake", "withdraw", "withdraw_foreign", "stake_hostile_key",
	"allegation", "vote", "vote_wave", "vote_hostile", "release", "gov", "send"}

// DrawBlock draws the transactions of the next block from the view of the last committed one.
func (f *Focus) DrawBlock(v *View) []txgen.Tx {
	f.lastView = v
	if f.intent == nil {
		f.intent = map[string]int8{}
	}
	f.planned, f.low = map[string]int64{}, map[string]int64{}
	for a, r := range v.Vals {
		f.planned[a] = r.Power
		f.low[a] = r.Power
	}
	f.opened, f.used = nil, map[string]bool{}
	var names []string
	for _, a := range focusActions {
		for i := 0; i < f.Wt[a]; i++ {
			names = append(names, a)
		}
	}
	var out []txgen.Tx
	// a started proposal moves on by itself most of the time
	if f.gov.stage == 1 && f.pct(70, "gov-advance") {
		out = append(out, f.govStep(v)...)
	}
	max := f.Max
	if max < 1 {
		max = 4
	}
	n := f.rng(0, max, "nact")
	for i := 0; i < n && len(names) > 0; i++ {
		var txs []txgen.Tx
		switch names[f.rng(0, len(names)-1, "action")] {
		case "stake_new":
			txs = f.stakeNew(v)
		case "stake_top":
			txs = f.stakeTop(v)
		case "unstake":
			txs = f.unstake(v)
		case "withdraw":
			txs = f.withdraw(v, false)
		case "withdraw_foreign":
			txs = f.withdraw(v, true)
		case "stake_hostile_key":
			txs = f.stakeHostileKey(v)
		case "allegation":
			txs = f.allegation(v)
		case "vote":
			txs = f.vote(v)
		case "vote_wave":
			txs = f.voteWave(v)
		case "vote_hostile":
			txs = f.voteHostile(v)
		case "release":
			txs = f.release(v)
		case "gov":
			if f.W.P.Maturity >= 100000 {
				txs = f.govStep(v)
			}
		case "send":
			txs = f.send()
		}
		out = append(out, txs...)
	}
	// a transaction the node refuses before executing it (a transfer signed by somebody else's key), in 1 of 5
	// blocks, mostly as the block's last transaction: whatever a refusal leaves behind meets the block-end hooks
	if f.rng(0, 4, "refused") == 0 {
		u := f.W.G.U.Users
		a, b := u[f.rng(0, len(u)-1, "ref-from")], u[f.rng(0, len(u)-1, "ref-signer")]
		if !a.Addr.Equal(b.Addr) {
			tx := txgen.Send(b, a.Addr, b.Addr, txgen.Amt("OLT", big.NewInt(int64(f.rng(1, 1000, "ref-amt")))), f.W.Fee, f.W.Memo())
			tx.Tags = []string{"refused-by-validate"}
			if at := f.rng(0, 3, "ref-at"); at == 0 && len(out) > 0 {
				k := f.rng(0, len(out)-1, "ref-pos")
				out = append(out[:k:k], append([]txgen.Tx{tx}, out[k:]...)...)
			} else {
				out = append(out, tx)
			}
			f.Feat["refused-transaction-in-block"]++
		}
	}
	return out
}

// DrawEnv draws the block environment; with the last-eligible exclusion active the anchor
// validator is never absent (it must not be flagged for missed votes).
func (f *Focus) DrawEnv(txs []txgen.Tx) sim.BlockSpec {
	spec := sim.BlockSpec{}
	// (6 and 12 hours: block times on both sides of a midnight between an event and its deadline a day later)
	spec.GapSecs = int64(sample(f.u(), []int{1, 2, 5, 5, 5, 17, 60, 3600, 21600, 43200, 86400, 90000}, "gap"))
	spec.ProposerIdx = f.rng(0, 15, "proposer")
	if f.rng(0, 5, "hasabsent") == 0 {
		na := f.rng(1, 2, "nabsent")
		for i := 0; i < na; i++ {
			spec.Absent = append(spec.Absent, f.rng(0, 15, "absent"))
		}
	}
	if f.rng(0, 39, "hasbyz") == 0 {
		spec.ByzIdx = []int{f.rng(0, 15, "byz")}
	}
	for _, tx := range txs {
		spec.Txs = append(spec.Txs, tx.Bytes)
	}
	// the rest of the mempool: transactions the node checks around this block without executing them in it
	if f.lastView != nil && f.rng(0, 2, "pool") == 0 {
		n := f.rng(1, 2, "pool-n")
		for i := 0; i < n; i++ {
			var ptx []txgen.Tx
			switch f.rng(0, 6, "pool-what") {
			case 0:
				ptx = f.stakeTop(f.lastView)
			case 1:
				ptx = f.unstake(f.lastView)
			case 2:
				ptx = f.withdraw(f.lastView, false)
			case 3:
				ptx = f.allegation(f.lastView)
			case 4:
				ptx = f.vote(f.lastView)
			case 5:
				ptx = f.release(f.lastView)
			default:
				ptx = f.send()
			}
			for _, x := range ptx {
				spec.Pool = append(spec.Pool, x.Bytes)
			}
		}
		if len(spec.Pool) > 0 {
			f.Feat["block-with-mempool-only-transactions"]++
		}
	}
	if f.rng(0, 29, "restart") == 0 {
		spec.Restart = true
		f.Feat["node-restarted-before-block"]++
	}
	if !f.downDrawn {
		f.downDrawn = true
		f.down, f.downFrom = hist.DrawDown(f.u().N, len(f.W.G.U.Vals))
	}
	if da := hist.DownAbsent(f.W, f.down, f.downFrom); len(da) > 0 {
		spec.Absent = append(spec.Absent, da...)
		f.Feat["block-with-a-node-down"]++
	}
	ProtectAnchor(f.W, &spec, f.Excl)
	return spec
}

// ProtectAnchor removes the anchor validator from the absentee list when the last-eligible
// exclusion is active.
func ProtectAnchor(w *hist.World, spec *sim.BlockSpec, excl func(string) bool) {
	if excl == nil || w.C.Last == nil || w.C.Last.Size() == 0 {
		return
	}
	anchor := AnchorAddr(w)
	var keep []int
	for _, ai := range spec.Absent {
		i := ai % w.C.Last.Size()
		if i < 0 {
			i += w.C.Last.Size()
		}
		if Addr(w.C.Last.Validators[i].Address.Bytes()) == anchor && excl(ExclLastEligible) {
			continue
		}
		keep = append(keep, ai)
	}
	spec.Absent = keep
}

// FilterShared drops, from transactions drawn by the shared generator, those that the active
// exclusions of the staking properties rule out (the shared generator does not know them).
func FilterShared(w *hist.World, v *View, txs []txgen.Tx, excl func(string) bool) []txgen.Tx {
	if excl == nil {
		return txs
	}
	anchor := AnchorAddr(w)
	h := w.C.Height + 1
	var out []txgen.Tx
	accusedOf := map[string]string{}
	for id, q := range v.Reqs {
		accusedOf[id] = q.Accused
	}
	for _, tx := range txs {
		ti := DecodeTx(tx.Bytes)
		drop := false
		switch ti.Kind {
		case "UNSTAKE":
			drop = ti.Val == anchor && excl(ExclLastEligible)
			if r := v.Vals[ti.Val]; !drop && r != nil && ti.Amount.IsInt64() && ti.Amount.Int64() >= r.Power && r.Power > 0 {
				drop = !ZeroUnstakeSafe(w, v, ti.Val) && excl(ExclGhostMember)
			}
		case "ALLEGATION":
			drop = (ti.Accused == anchor && excl(ExclLastEligible)) ||
				(h <= v.Evidence.BlockVotesDiff && excl(ExclEarlyVerdict))
			if !drop && accusedOf[ti.ReqID] == "" {
				accusedOf[ti.ReqID] = ti.Accused
			}
		case "ALLEGATION_VOTE":
			if acc := accusedOf[ti.ReqID]; acc != "" {
				drop = !AccusedSettled(w, v, acc) && excl(ExclPurgedVerdict)
			}
		case "STAKE":
			r := v.Vals[ti.Val]
			drop = (r != nil && r.Power <= 0 || r == nil && v.TotalOf(ti.Val).Sign() > 0) && excl(ExclZeroPowerStake)
			if !drop && len(ti.PubData) > 0 {
				foreignKey := ti.PubType != "ed25519"
				if !foreignKey {
					if pk, err := keys.GetPublicKeyFromBytes(ti.PubData, keys.ED25519); err != nil {
						foreignKey = true
					} else if ph, err := pk.GetHandler(); err != nil || Addr(ph.Address()) != ti.Val {
						foreignKey = true
					}
				}
				drop = foreignKey && excl(ExclForeignKey)
			}
		case "WITHDRAW":
			if fz := FrozenServedBy(v, ti.Deleg); fz != "" && ti.Val != fz {
				drop = excl(ExclForeignWithdr)
			}
		}
		if !drop {
			out = append(out, tx)
		}
	}
	return out
}
