// Package ledger decodes a full dump of the committed state tree (sim.Replica.DumpMap / Dump)
// into a per-currency, per-owner ledger of everything that is value on chain.
//
// Keys are classified by the harness (by prefix, independently of the repository's iterators);
// every key must be classified: a key whose prefix is not known makes Decode fail and the error
// lists the keys, so that a new store has to be classified here instead of being ignored.
// Record values are decoded strictly (a record that cannot be parsed is an error too).
//
// Value classes (DESIGN.md section 5):
//
//	balance            b_<0ltaddr>_<CUR>            base units   owner = address (pools included)
//	supply-counter     b_<TotalSupplyAddr>_<CUR>    -            bookkeeping of wrapped supply, NOT value
//	fee-pool           f_00000000000000000000       OLT base     pool
//	fee-share          f_<raw 20 bytes>             OLT base     owner = address
//	stake-locked       st__d_e_<deleg>              whole OLT    delegator    (x 10^18)
//	stake-unlocking    st__m_<height> entries       whole OLT    delegator    (x 10^18)
//	stake-withdrawable st__d_b_<deleg>              whole OLT    delegator    (x 10^18)
//	undelegating       deleg_p_<h>_<addr>           base         delegator
//	active-delegation  deleg_a_<addr>               base         delegator; mirrored by the delegation pool's balance:
//	                                                             counted once (as the pool balance) in totals, attributed
//	                                                             to the delegator in per-owner views
//	claim-balance      delegRwz_balance_<addr>      OLT base     delegator
//	claim-pending      delegRwz_pending_<h>_<addr>  OLT base     delegator
//	proposal-escrow    propFunds_t_<id>             OLT base     the proposal (in totals, not a holding): the record the
//	                                                             application pays out from (finalisation distributes it,
//	                                                             a withdrawal must fit into it)
//	bid-escrow         extBidOffer_… (status locked) base        bidder (in totals, not a holding)
//
// Cross-check records (decoded, checked for sign, never summed): st__e_<val>_<deleg>, st__t_<val>,
// rwz_<val>_<interval>, rwcum_balance_/rwcum_withdrawn_<val>, rwcum_tdist (validator reward records),
// propFunds_i_<id>_<funder> (per-funder shares of an escrow; finalising two proposals in one block leaves
// the second one's shares behind as dead records, so they are not the measure of the escrow). Everything else that is known (validator reward records rwz_/rwcum_/rwaddr_/ri_,
// the claims counter delegRwz_total_rewards, options g_, evidence es__, trackers etht_/ethfailed_/
// ethsuccess_/btct_, domains d_, validators v_, witnesses w_, purge records purged_, proposals and
// votes prop…, EVM accounts keeper_ and storage contracts_, bid conversations extBidConv…) is "not value".
package ledger

import (
	"encoding/base64"
	"encoding/hex"
	"encoding/json"
	"fmt"
	"math/big"
	"sort"
	"strconv"
	"strings"
)

// Class names.
const (
	Balance           = "balance"
	SupplyCounter     = "supply-counter"
	FeePool           = "fee-pool"
	FeeShare          = "fee-share"
	StakeLocked       = "stake-locked"
	StakeUnlocking    = "stake-unlocking"
	StakeWithdrawable = "stake-withdrawable"
	Undelegating      = "undelegating"
	ActiveDelegation  = "active-delegation"
	ClaimBalance      = "claim-balance"
	ClaimPending      = "claim-pending"
	ProposalEscrow    = "proposal-escrow"
	BidEscrow         = "bid-escrow"
	// cross-check only
	StakeValDeleg  = "stake-val-deleg"
	StakeValTotal  = "stake-val-total"
	ProposalFunder = "proposal-funder"
	// ValidatorRewardRecord: rwz_ / rwcum_ amounts, decoded for the sign check only
	ValidatorRewardRecord = "validator-reward-record"
	ClaimsCounter         = "claims-counter"
	notValueClass         = "not-value"
	feePoolRawKey         = "00000000000000000000"
	DelegationPool        = "00000000000000000001"
	// SupplyAddrRaw is the raw TotalSupplyAddr of the ethereum and bitcoin chain-driver options.
	SupplyAddrRaw = "oneledgerSupplyAddress"
)

var e18 = new(big.Int).Exp(big.NewInt(10), big.NewInt(18), nil)

// Owner renders raw address bytes the way keys.Address.String() does.
func Owner(raw []byte) string { return "0lt" + hex.EncodeToString(raw) }

// OwnerOfRawString renders a pool-style raw string address.
func OwnerOfRawString(s string) string { return Owner([]byte(s)) }

// Entry is one decoded amount.
type Entry struct {
	Key        string
	Class      string
	Cur        string
	Owner      string   // "0lt…" ("" when the record has no owner)
	Amt        *big.Int // base units (stake classes already multiplied by 10^18)
	InTotal    bool     // summed by Totals
	InHoldings bool     // summed by Holdings (the classes C03 names)
	Height     int64    // maturity height for pending / unlocking classes, else 0
}

// Tracker is an ethereum lock/redeem tracker record.
type Tracker struct {
	Name  string // 0x… hash
	Store string // ongoing | success | failed
	Type  int    // 1 lock, 2 redeem, 3 erc20 lock, 4 erc20 redeem
	State int    // 0 new … 5 released, 6 failed
	RawTx []byte // the embedded signed ethereum transaction (nil once cleaned)
	Owner string
}

// Validator is a validator record.
type Validator struct {
	Address string
	Stake   string // stake address
	Power   int64
	Staking *big.Int
}

// DelayedUnstake is a purged_unstake_<h><val> record (penalty applied to the validator record one block later).
type DelayedUnstake struct {
	Key     string
	Height  int64
	Address string
	Amount  *big.Int
}

// Frozen is an evidence-store frozen ("suspicious validator") record.
type Frozen struct {
	Address       string
	Status        int // 1 missed required votes, 2 byzantine fault
	FrozenHeight  int64
	ReleaseHeight int64
}

// Ledger is the decoded dump.
type Ledger struct {
	Entries   []Entry
	Trackers  map[string]Tracker
	Vals      map[string]Validator
	Unstakes  []DelayedUnstake
	Frozen    map[string]Frozen
	Props     map[string]string // proposal id -> store it sits in (active, passed, failed, finalized, finalize-failed)
	Contracts map[string]bool   // EVM accounts that carry code
	EVMAccts  map[string]bool   // every keeper_ account
	// ClaimsAccrued is delegRwz_total_rewards: the application's cumulative counter of delegation rewards accrued.
	ClaimsAccrued *big.Int
	NotValue      map[string]int // number of not-value records per prefix
}

// UnknownKeysError lists the keys whose prefix is not classified.
type UnknownKeysError struct{ Keys []string }

func (e *UnknownKeysError) Error() string {
	ks := e.Keys
	more := ""
	if len(ks) > 8 {
		more = fmt.Sprintf(" … and %d more", len(ks)-8)
		ks = ks[:8]
	}
	q := make([]string, len(ks))
	for i, k := range ks {
		q[i] = strconv.Quote(k)
	}
	return "ledger: keys with an unclassified prefix (classify the store in harness/ledger): " + strings.Join(q, ", ") + more
}

// ---- strict value decoders ----

func amtJSON(v []byte) (*big.Int, error) {
	var s string
	if err := json.Unmarshal(v, &s); err != nil {
		return nil, fmt.Errorf("amount is not a JSON string: %q", trunc(v))
	}
	return amtStr(s)
}

func amtStr(s string) (*big.Int, error) {
	b, ok := new(big.Int).SetString(s, 10)
	if !ok {
		return nil, fmt.Errorf("amount is not a decimal integer: %q", s)
	}
	return b, nil
}

// coinJSON decodes a serialised balance.Coin: {"currency":{…"name":…},"amount":"<base64 of a JSON string>"}.
func coinJSON(v []byte) (string, *big.Int, error) {
	var c struct {
		Currency struct {
			Name string `json:"name"`
		} `json:"currency"`
		Amount *string `json:"amount"`
	}
	if err := json.Unmarshal(v, &c); err != nil {
		return "", nil, fmt.Errorf("coin record is not JSON: %q", trunc(v))
	}
	if c.Amount == nil {
		return c.Currency.Name, nil, nil
	}
	raw, err := base64.StdEncoding.DecodeString(*c.Amount)
	if err != nil {
		return "", nil, fmt.Errorf("coin amount is not base64: %q", trunc(v))
	}
	a, err := amtJSON(raw)
	if err != nil {
		return "", nil, err
	}
	return c.Currency.Name, a, nil
}

func trunc(v []byte) string {
	if len(v) > 120 {
		return string(v[:120]) + "…"
	}
	return string(v)
}

func isOwner(s string) bool {
	if !strings.HasPrefix(s, "0lt") {
		return false
	}
	_, err := hex.DecodeString(s[3:])
	return err == nil
}

// ---- classification ----

type handler func(l *Ledger, key, rest string, v []byte) error

type rule struct {
	prefix string
	h      handler
}

func notValue(name string) handler {
	return func(l *Ledger, key, rest string, v []byte) error {
		l.NotValue[name]++
		return nil
	}
}

// rules are matched longest prefix first.
var rules []rule

func init() {
	rules = []rule{
		{"b_", hBalance},
		{"f_", hFee},
		{"st__e_", hStakeVD},
		{"st__t_", hStakeVT},
		{"st__d_e_", hStakeAmt(StakeLocked)},
		{"st__d_b_", hStakeAmt(StakeWithdrawable)},
		{"st__m_", hStakeMature},
		{"deleg_a_", hDelegActive},
		{"deleg_p_", hDelegPending},
		{"delegRwz_balance_", hClaimBalance},
		{"delegRwz_pending_", hClaimPending},
		{"delegRwz_total_rewards", hClaimsCounter},
		{"propFunds_i_", hPropFundIndiv},
		{"propFunds_t_", hPropFundTotal},
		{"extBidOffer_", hBidOffer},
		{"extBidConv", notValue("extBidConv")},
		// validator reward records are claims on the rewards pool's balance: counting them would double count
		{"rwz_", hRewardRecord},
		{"ri_", notValue("ri_")},
		{"rwaddr_", notValue("rwaddr_")},
		{"rwcum_balance_", hRewardRecord},
		{"rwcum_withdrawn_", hRewardRecord},
		{"rwcum_tdist", hRewardRecord},
		{"rwcum_", notValue("rwcum_")},
		{"g_", notValue("g_")},
		{"es__", hEvidence},
		{"v_", hValidator},
		{"w_", notValue("w_")},
		{"d_", notValue("d_")},
		{"purged_unstake_", hDelayedUnstake},
		{"purged_", notValue("purged_")},
		{"propActive", hProposal("active")},
		{"propPassed", hProposal("passed")},
		{"propFailed", hProposal("failed")},
		{"propFinalized", hProposal("finalized")},
		{"propFinalizeFailed", hProposal("finalize-failed")},
		{"propVotes_", notValue("propVotes_")},
		{"etht_", hTracker("ongoing")},
		{"ethsuccess_", hTracker("success")},
		{"ethfailed_", hTracker("failed")},
		{"btct_", notValue("btct_")},
		{"keeper_", hKeeper},
		{"contracts_", notValue("contracts_")},
	}
	sort.SliceStable(rules, func(i, j int) bool { return len(rules[i].prefix) > len(rules[j].prefix) })
}

func (l *Ledger) add(e Entry) { l.Entries = append(l.Entries, e) }

func hBalance(l *Ledger, key, rest string, v []byte) error {
	i := strings.Index(rest, "_")
	if i < 0 {
		return fmt.Errorf("balance key without currency")
	}
	owner, cur := rest[:i], rest[i+1:]
	if !isOwner(owner) {
		return fmt.Errorf("balance key with a malformed address %q", owner)
	}
	a, err := amtJSON(v)
	if err != nil {
		return err
	}
	e := Entry{Key: key, Class: Balance, Cur: cur, Owner: owner, Amt: a, InTotal: true, InHoldings: true}
	if owner == OwnerOfRawString(SupplyAddrRaw) {
		e.Class, e.InTotal, e.InHoldings = SupplyCounter, false, false
	}
	l.add(e)
	return nil
}

func hFee(l *Ledger, key, rest string, v []byte) error {
	a, err := amtJSON(v)
	if err != nil {
		return err
	}
	e := Entry{Key: key, Class: FeeShare, Cur: "OLT", Owner: Owner([]byte(rest)), Amt: a, InTotal: true}
	if rest == feePoolRawKey {
		e.Class = FeePool
	}
	l.add(e)
	return nil
}

func whole(a *big.Int) *big.Int { return new(big.Int).Mul(a, e18) }

func hStakeVD(l *Ledger, key, rest string, v []byte) error {
	p := strings.Split(rest, "_")
	if len(p) != 2 || !isOwner(p[0]) || !isOwner(p[1]) {
		return fmt.Errorf("malformed validator/delegator stake key")
	}
	a, err := amtJSON(v)
	if err != nil {
		return err
	}
	// Owner = delegator, Cur carries the validator for the cross-sums
	l.add(Entry{Key: key, Class: StakeValDeleg, Cur: p[0], Owner: p[1], Amt: a})
	return nil
}

func hStakeVT(l *Ledger, key, rest string, v []byte) error {
	if !isOwner(rest) {
		return fmt.Errorf("malformed validator stake key")
	}
	a, err := amtJSON(v)
	if err != nil {
		return err
	}
	l.add(Entry{Key: key, Class: StakeValTotal, Cur: rest, Owner: "", Amt: a})
	return nil
}

func hStakeAmt(class string) handler {
	return func(l *Ledger, key, rest string, v []byte) error {
		if !isOwner(rest) {
			return fmt.Errorf("malformed delegator stake key")
		}
		a, err := amtJSON(v)
		if err != nil {
			return err
		}
		l.add(Entry{Key: key, Class: class, Cur: "OLT", Owner: rest, Amt: whole(a), InTotal: true, InHoldings: true})
		return nil
	}
}

func hStakeMature(l *Ledger, key, rest string, v []byte) error {
	h, err := strconv.ParseInt(rest, 10, 64)
	if err != nil {
		return fmt.Errorf("malformed maturity key")
	}
	var m struct {
		Height int64
		Data   []struct {
			Address string
			Amount  string
			Height  int64
		}
	}
	if err := json.Unmarshal(v, &m); err != nil {
		return fmt.Errorf("maturity record is not JSON: %q", trunc(v))
	}
	for i, d := range m.Data {
		if !isOwner(d.Address) {
			return fmt.Errorf("maturity entry %d with a malformed address %q", i, d.Address)
		}
		a, err := amtStr(d.Amount)
		if err != nil {
			return err
		}
		l.add(Entry{Key: fmt.Sprintf("%s#%d", key, i), Class: StakeUnlocking, Cur: "OLT", Owner: d.Address, Amt: whole(a), InTotal: true, InHoldings: true, Height: h})
	}
	return nil
}

func hDelegActive(l *Ledger, key, rest string, v []byte) error {
	if !isOwner(rest) {
		return fmt.Errorf("malformed delegator key")
	}
	cur, a, err := coinJSON(v)
	if err != nil {
		return err
	}
	if a == nil {
		a = big.NewInt(0)
	}
	l.add(Entry{Key: key, Class: ActiveDelegation, Cur: cur, Owner: rest, Amt: a, InTotal: false, InHoldings: true})
	return nil
}

func heightAndOwner(rest string) (int64, string, error) {
	i := strings.Index(rest, "_")
	if i < 0 {
		return 0, "", fmt.Errorf("malformed <height>_<address> key")
	}
	h, err := strconv.ParseInt(rest[:i], 10, 64)
	if err != nil || !isOwner(rest[i+1:]) {
		return 0, "", fmt.Errorf("malformed <height>_<address> key")
	}
	return h, rest[i+1:], nil
}

func hDelegPending(l *Ledger, key, rest string, v []byte) error {
	h, owner, err := heightAndOwner(rest)
	if err != nil {
		return err
	}
	cur, a, err := coinJSON(v)
	if err != nil {
		return err
	}
	if a == nil {
		a = big.NewInt(0)
	}
	l.add(Entry{Key: key, Class: Undelegating, Cur: cur, Owner: owner, Amt: a, InTotal: true, InHoldings: true, Height: h})
	return nil
}

func hClaimBalance(l *Ledger, key, rest string, v []byte) error {
	if !isOwner(rest) {
		return fmt.Errorf("malformed delegator key")
	}
	a, err := amtJSON(v)
	if err != nil {
		return err
	}
	l.add(Entry{Key: key, Class: ClaimBalance, Cur: "OLT", Owner: rest, Amt: a, InTotal: true, InHoldings: true})
	return nil
}

func hClaimPending(l *Ledger, key, rest string, v []byte) error {
	h, owner, err := heightAndOwner(rest)
	if err != nil {
		return err
	}
	a, err := amtJSON(v)
	if err != nil {
		return err
	}
	l.add(Entry{Key: key, Class: ClaimPending, Cur: "OLT", Owner: owner, Amt: a, InTotal: true, InHoldings: true, Height: h})
	return nil
}

func hClaimsCounter(l *Ledger, key, rest string, v []byte) error {
	if rest != "" {
		return fmt.Errorf("unexpected suffix on the claims counter key")
	}
	a, err := amtJSON(v)
	if err != nil {
		return err
	}
	l.ClaimsAccrued = a
	l.add(Entry{Key: key, Class: ClaimsCounter, Cur: "OLT", Amt: a})
	return nil
}

func hPropFundIndiv(l *Ledger, key, rest string, v []byte) error {
	i := strings.LastIndex(rest, "_")
	if i < 0 || !isOwner(rest[i+1:]) {
		return fmt.Errorf("malformed proposal fund key")
	}
	a, err := amtJSON(v)
	if err != nil {
		return err
	}
	// Cur carries the proposal id for the cross-check
	l.add(Entry{Key: key, Class: ProposalFunder, Cur: rest[:i], Owner: rest[i+1:], Amt: a})
	return nil
}

func hPropFundTotal(l *Ledger, key, rest string, v []byte) error {
	a, err := amtJSON(v)
	if err != nil {
		return err
	}
	l.add(Entry{Key: key, Class: ProposalEscrow, Cur: "OLT", Owner: "proposal:" + rest, Amt: a, InTotal: true})
	return nil
}

func hBidOffer(l *Ledger, key, rest string, v []byte) error {
	var o struct {
		BidConvId string `json:"bidConvId"`
		Amount    struct {
			Currency string `json:"currency"`
			Value    string `json:"value"`
		} `json:"amount"`
		AmountStatus int `json:"amountStatus"`
	}
	if err := json.Unmarshal(v, &o); err != nil {
		return fmt.Errorf("bid offer record is not JSON: %q", trunc(v))
	}
	a, err := amtStr(o.Amount.Value)
	if err != nil {
		return err
	}
	// 1 = BidAmountLocked: the bidder's coins were taken from its balance and are held by the offer
	locked := o.AmountStatus == 1
	l.add(Entry{Key: key, Class: BidEscrow, Cur: o.Amount.Currency, Owner: "bidconv:" + o.BidConvId, Amt: a, InTotal: locked})
	return nil
}

// hRewardRecord decodes a validator reward record (interval amounts, matured and withdrawn totals, total
// distributed). They are claims on the rewards pool's balance and never summed; they are decoded so that
// "no stored amount is negative" covers them too.
func hRewardRecord(l *Ledger, key, rest string, v []byte) error {
	l.NotValue["validator-reward-record"]++
	a, err := amtJSON(v)
	if err != nil {
		return err
	}
	l.add(Entry{Key: key, Class: ValidatorRewardRecord, Cur: "OLT", Amt: a})
	return nil
}

func hProposal(store string) handler {
	return func(l *Ledger, key, rest string, v []byte) error {
		l.NotValue["prop-record"]++
		// a proposal found in two stores is the governance property's business, not a decoding failure:
		// both are remembered
		if prev, dup := l.Props[rest]; dup {
			store = prev + "+" + store
		}
		l.Props[rest] = store
		return nil
	}
}

func hEvidence(l *Ledger, key, rest string, v []byte) error {
	l.NotValue["es__"]++
	if strings.HasPrefix(rest, "ssvk_") {
		var r struct {
			Address       string
			Status        int
			FrozenHeight  int64
			ReleaseHeight int64
		}
		if err := json.Unmarshal(v, &r); err != nil {
			return fmt.Errorf("frozen record is not JSON: %q", trunc(v))
		}
		l.Frozen[r.Address] = Frozen{Address: r.Address, Status: r.Status, FrozenHeight: r.FrozenHeight, ReleaseHeight: r.ReleaseHeight}
	}
	return nil
}

func hValidator(l *Ledger, key, rest string, v []byte) error {
	l.NotValue["v_"]++
	var r struct {
		Address      string `json:"address"`
		StakeAddress string `json:"stakeAddress"`
		Power        int64  `json:"power"`
		Staking      string `json:"staking"`
	}
	if err := json.Unmarshal(v, &r); err != nil {
		return fmt.Errorf("validator record is not JSON: %q", trunc(v))
	}
	st, err := amtStr(r.Staking)
	if err != nil {
		return err
	}
	l.Vals[r.Address] = Validator{Address: r.Address, Stake: r.StakeAddress, Power: r.Power, Staking: st}
	return nil
}

func hDelayedUnstake(l *Ledger, key, rest string, v []byte) error {
	l.NotValue["purged_unstake_"]++
	var r struct {
		Address string
		Amount  string
	}
	if err := json.Unmarshal(v, &r); err != nil {
		return fmt.Errorf("delayed unstake record is not JSON: %q", trunc(v))
	}
	a, err := amtStr(r.Amount)
	if err != nil {
		return err
	}
	// key = <decimal height><raw validator address>; the address also sits in the record
	hs := rest
	if strings.HasPrefix(r.Address, "0lt") {
		if raw, err := hex.DecodeString(r.Address[3:]); err == nil && strings.HasSuffix(rest, string(raw)) {
			hs = rest[:len(rest)-len(raw)]
		}
	}
	h, err := strconv.ParseInt(hs, 10, 64)
	if err != nil {
		return fmt.Errorf("delayed unstake key without a height")
	}
	l.Unstakes = append(l.Unstakes, DelayedUnstake{Key: key, Height: h, Address: r.Address, Amount: a})
	return nil
}

func hTracker(store string) handler {
	return func(l *Ledger, key, rest string, v []byte) error {
		l.NotValue["eth-tracker"]++
		var r struct {
			Type         int
			State        int
			TrackerName  string
			SignedETHTx  []byte
			ProcessOwner string
		}
		if err := json.Unmarshal(v, &r); err != nil {
			return fmt.Errorf("tracker record is not JSON: %q", trunc(v))
		}
		name := strings.ToLower(r.TrackerName)
		// a tracker found in two stores is the cross-chain property's business: the record of the final
		// store (success / failed) wins over the ongoing one
		if prev, dup := l.Trackers[name]; dup && prev.Store != "ongoing" {
			return nil
		}
		l.Trackers[name] = Tracker{Name: name, Store: store, Type: r.Type, State: r.State, RawTx: r.SignedETHTx, Owner: r.ProcessOwner}
		return nil
	}
}

// emptyCodeHash is keccak256(nil), base64.
const emptyCodeHash = "xdJGAYb3IzySfn2y3McDwOUAtlPKgic7e/rYBF2FpHA="

func hKeeper(l *Ledger, key, rest string, v []byte) error {
	l.NotValue["keeper_"]++
	var r struct {
		Address  string `json:"address"`
		CodeHash string `json:"codeHash"`
		Coins    json.RawMessage
	}
	if err := json.Unmarshal(v, &r); err != nil {
		return fmt.Errorf("EVM account record is not JSON: %q", trunc(v))
	}
	// the account keeper stores the balance in the balance store and blanks the coin here; a non-empty
	// coin would be value this decoder does not count
	if len(r.Coins) > 0 {
		_, a, err := coinJSON(r.Coins)
		if err != nil {
			return err
		}
		if a != nil && a.Sign() != 0 {
			return fmt.Errorf("EVM account record carries a balance of its own (%s)", a)
		}
	}
	owner := Owner([]byte(rest))
	l.EVMAccts[owner] = true
	if r.CodeHash != "" && r.CodeHash != emptyCodeHash {
		l.Contracts[owner] = true
	}
	return nil
}

// Decode classifies and decodes every record of a dump.
func Decode(dump map[string][]byte) (*Ledger, error) {
	l := &Ledger{Props: map[string]string{}, Trackers: map[string]Tracker{}, Vals: map[string]Validator{}, Frozen: map[string]Frozen{},
		Contracts: map[string]bool{}, EVMAccts: map[string]bool{}, NotValue: map[string]int{}, ClaimsAccrued: big.NewInt(0)}
	keys := make([]string, 0, len(dump))
	for k := range dump {
		keys = append(keys, k)
	}
	sort.Strings(keys)
	var unknown []string
	for _, k := range keys {
		matched := false
		for _, r := range rules {
			if strings.HasPrefix(k, r.prefix) {
				if err := r.h(l, k, k[len(r.prefix):], dump[k]); err != nil {
					return nil, fmt.Errorf("ledger: record %q: %v", k, err)
				}
				matched = true
				break
			}
		}
		if !matched {
			unknown = append(unknown, k)
		}
	}
	if len(unknown) > 0 {
		return nil, &UnknownKeysError{Keys: unknown}
	}
	return l, nil
}

// ---- views ----

func addTo(m map[string]*big.Int, k string, a *big.Int) {
	if m[k] == nil {
		m[k] = new(big.Int)
	}
	m[k].Add(m[k], a)
}

// Totals returns the sum of all value per currency.
func (l *Ledger) Totals() map[string]*big.Int {
	t := map[string]*big.Int{}
	for _, e := range l.Entries {
		if e.InTotal {
			addTo(t, e.Cur, e.Amt)
		}
	}
	return t
}

// TotalsByClass returns, per currency, the sum per value class (only classes that are in the totals).
func (l *Ledger) TotalsByClass() map[string]map[string]*big.Int {
	t := map[string]map[string]*big.Int{}
	for _, e := range l.Entries {
		if e.InTotal {
			if t[e.Cur] == nil {
				t[e.Cur] = map[string]*big.Int{}
			}
			addTo(t[e.Cur], e.Class, e.Amt)
		}
	}
	return t
}

// Claims returns the sum of delegation reward claims (balance + pending) and the per-delegator claim balances.
func (l *Ledger) Claims() (sum *big.Int, balance map[string]*big.Int) {
	sum = new(big.Int)
	balance = map[string]*big.Int{}
	for _, e := range l.Entries {
		switch e.Class {
		case ClaimBalance:
			sum.Add(sum, e.Amt)
			addTo(balance, e.Owner, e.Amt)
		case ClaimPending:
			sum.Add(sum, e.Amt)
		}
	}
	return
}

// Holdings returns the owner's holdings per currency: exactly the classes C03 names (balances in every
// currency, locked + unlocking + withdrawable stake, delegated + undelegating amounts, reward claims).
func (l *Ledger) Holdings(owner string) map[string]*big.Int {
	h := map[string]*big.Int{}
	for _, e := range l.Entries {
		if e.InHoldings && e.Owner == owner {
			addTo(h, e.Cur, e.Amt)
		}
	}
	return h
}

// AllHoldings returns Holdings for every owner that appears in the ledger.
func (l *Ledger) AllHoldings() map[string]map[string]*big.Int {
	all := map[string]map[string]*big.Int{}
	for _, e := range l.Entries {
		if e.InHoldings {
			if all[e.Owner] == nil {
				all[e.Owner] = map[string]*big.Int{}
			}
			addTo(all[e.Owner], e.Cur, e.Amt)
		}
	}
	return all
}

// AllHoldingsAt is AllHoldings of the state committed at height h without the unlocking stake and undelegating amounts
// recorded for a height in 2..h: the block that pays them has passed and they will not be visited again, so they are
// no longer something the account will get (block 1 runs no block-end staking hooks: its entries are left in).
func (l *Ledger) AllHoldingsAt(h int64) map[string]map[string]*big.Int {
	all := map[string]map[string]*big.Int{}
	for _, e := range l.Entries {
		if !e.InHoldings {
			continue
		}
		if (e.Class == StakeUnlocking || e.Class == Undelegating) && e.Height >= 2 && e.Height <= h {
			continue
		}
		if all[e.Owner] == nil {
			all[e.Owner] = map[string]*big.Int{}
		}
		addTo(all[e.Owner], e.Cur, e.Amt)
	}
	return all
}

// HoldingsByClass is Holdings split by class ("<cur>/<class>").
func (l *Ledger) HoldingsByClass(owner string) map[string]*big.Int {
	h := map[string]*big.Int{}
	for _, e := range l.Entries {
		if e.InHoldings && e.Owner == owner {
			addTo(h, e.Cur+"/"+e.Class, e.Amt)
		}
	}
	return h
}

// Negative is a stored negative amount.
type Negative struct {
	Key   string
	Class string
	Amt   *big.Int
}

func (n Negative) String() string { return fmt.Sprintf("%q (%s) = %s", n.Key, n.Class, n.Amt) }

// Negatives lists every decoded amount (of every class, cross-check records included) that is negative.
func (l *Ledger) Negatives() []Negative {
	var out []Negative
	for _, e := range l.Entries {
		if e.Amt.Sign() < 0 {
			out = append(out, Negative{Key: e.Key, Class: e.Class, Amt: e.Amt})
		}
	}
	return out
}

// StakeCrossSums checks st__t_<val> = sum over delegators of st__e_<val>_* and
// st__d_e_<deleg> = sum over validators of st__e_*_<deleg>; it returns the violated equalities.
func (l *Ledger) StakeCrossSums() []string {
	byVal, byDeleg := map[string]*big.Int{}, map[string]*big.Int{}
	vt, de := map[string]*big.Int{}, map[string]*big.Int{}
	for _, e := range l.Entries {
		switch e.Class {
		case StakeValDeleg:
			addTo(byVal, e.Cur, e.Amt)
			addTo(byDeleg, e.Owner, e.Amt)
		case StakeValTotal:
			addTo(vt, e.Cur, e.Amt)
		case StakeLocked:
			addTo(de, e.Owner, new(big.Int).Quo(e.Amt, e18))
		}
	}
	var bad []string
	cmp := func(what string, a, b map[string]*big.Int, an, bn string) {
		ks := map[string]bool{}
		for k := range a {
			ks[k] = true
		}
		for k := range b {
			ks[k] = true
		}
		var sorted []string
		for k := range ks {
			sorted = append(sorted, k)
		}
		sort.Strings(sorted)
		for _, k := range sorted {
			x, y := a[k], b[k]
			if x == nil {
				x = new(big.Int)
			}
			if y == nil {
				y = new(big.Int)
			}
			if x.Cmp(y) != 0 {
				bad = append(bad, fmt.Sprintf("%s %s: %s = %s but %s = %s", what, k, an, x, bn, y))
			}
		}
	}
	cmp("validator", vt, byVal, "st__t_<val>", "sum of st__e_<val>_*")
	cmp("delegator", de, byDeleg, "st__d_e_<deleg>", "sum of st__e_*_<deleg>")
	return bad
}

// ProposalFundMismatches lists the proposals whose escrow record differs from the sum of its per-funder
// shares (an observation for the governance properties, not a C02 oracle).
func (l *Ledger) ProposalFundMismatches() []string {
	t, i := map[string]*big.Int{}, map[string]*big.Int{}
	for _, e := range l.Entries {
		switch e.Class {
		case ProposalEscrow:
			addTo(t, strings.TrimPrefix(e.Owner, "proposal:"), e.Amt)
		case ProposalFunder:
			addTo(i, e.Cur, e.Amt)
		}
	}
	ids := map[string]bool{}
	for k := range t {
		ids[k] = true
	}
	for k := range i {
		ids[k] = true
	}
	var out []string
	for id := range ids {
		x, y := t[id], i[id]
		if x == nil {
			x = new(big.Int)
		}
		if y == nil {
			y = new(big.Int)
		}
		if x.Cmp(y) != 0 {
			out = append(out, fmt.Sprintf("proposal %s: propFunds_t = %s, sum of propFunds_i = %s", id, x, y))
		}
	}
	sort.Strings(out)
	return out
}

// ---- functions on raw dumps (convenience wrappers) ----

// Totals decodes the dump and returns the total value per currency.
func Totals(dump map[string][]byte) (map[string]*big.Int, error) {
	l, err := Decode(dump)
	if err != nil {
		return nil, err
	}
	return l.Totals(), nil
}

// Holdings decodes the dump and returns the owner's holdings per currency.
func Holdings(dump map[string][]byte, owner string) (map[string]*big.Int, error) {
	l, err := Decode(dump)
	if err != nil {
		return nil, err
	}
	return l.Holdings(owner), nil
}

// NegativeAmounts decodes the dump and lists every stored negative amount.
func NegativeAmounts(dump map[string][]byte) ([]Negative, error) {
	l, err := Decode(dump)
	if err != nil {
		return nil, err
	}
	return l.Negatives(), nil
}

// StakeCrossSums decodes the dump and returns the violated stake cross-sum equalities.
func StakeCrossSums(dump map[string][]byte) ([]string, error) {
	l, err := Decode(dump)
	if err != nil {
		return nil, err
	}
	return l.StakeCrossSums(), nil
}
