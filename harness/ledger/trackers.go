package ledger

import (
	"bytes"
	"fmt"
	"math/big"
	"strings"

	"github.com/ethereum/go-ethereum/accounts/abi"
	ethcmn "github.com/ethereum/go-ethereum/common"
	ethtypes "github.com/ethereum/go-ethereum/core/types"
	"github.com/ethereum/go-ethereum/rlp"

	"github.com/Oneledger/protocol/chains/ethereum/contract"
)

// Tracker types and states (data/ethereum/init.go).
const (
	TypeLock      = 1
	TypeRedeem    = 2
	TypeLockERC   = 3
	TypeRedeemERC = 4

	StateReleased = 5
	StateFailed   = 6
)

var (
	lockRedeemABI, _ = abi.JSON(strings.NewReader(contract.LockRedeemABI))
	erc20ABI, _      = abi.JSON(strings.NewReader(contract.ERC20BasicABI))
)

// TrackerAmount decodes the embedded ethereum transaction of a tracker with go-ethereum (not with the
// repository's parsers) and returns what the tracker is about: for an ether lock the transaction's
// value, for an ERC-20 lock the token contract and the amount argument of transfer(to, amount), for an
// ether redeem the amount argument of redeem(amount).
func TrackerAmount(typ int, raw []byte) (token *ethcmn.Address, amt *big.Int, err error) {
	tx := &ethtypes.Transaction{}
	if err := rlp.DecodeBytes(raw, tx); err != nil {
		return nil, nil, fmt.Errorf("embedded ethereum transaction does not decode: %v", err)
	}
	data := tx.Data()
	switch typ {
	case TypeLock:
		return nil, new(big.Int).Set(tx.Value()), nil
	case TypeLockERC:
		m := erc20ABI.Methods["transfer"]
		if len(data) < 4+64 || !bytes.Equal(data[:4], m.ID) {
			return nil, nil, fmt.Errorf("not a transfer(to, amount) call")
		}
		return tx.To(), new(big.Int).SetBytes(data[4+32 : 4+64]), nil
	case TypeRedeem:
		m := lockRedeemABI.Methods["redeem"]
		if len(data) < 4+32 || !bytes.Equal(data[:4], m.ID) {
			return nil, nil, fmt.Errorf("not a redeem(amount) call")
		}
		return nil, new(big.Int).SetBytes(data[4 : 4+32]), nil
	}
	return nil, nil, fmt.Errorf("tracker type %d carries no amount this decoder knows", typ)
}

// Crossing is a tracker that reached witness finality (released or failed) between two dumps.
type Crossing struct {
	Name     string
	Type     int
	Released bool // else failed
	RawTx    []byte
}

// Crossings lists the trackers whose state became Released (5) or Failed (6) between before and after,
// in whichever store they sit afterwards (the end-block clean-up moves them to the success / failed
// store in the same block). rawByName supplies the embedded transaction for trackers that were created
// in this very block and already cleaned (record without the transaction).
func Crossings(before, after *Ledger, rawByName map[string][]byte) []Crossing {
	var out []Crossing
	for name, a := range after.Trackers {
		if a.State != StateReleased && a.State != StateFailed {
			continue
		}
		b, existed := before.Trackers[name]
		if existed && (b.State == StateReleased || b.State == StateFailed) {
			continue // crossed earlier
		}
		raw := a.RawTx
		if len(raw) == 0 && existed {
			raw = b.RawTx
		}
		if len(raw) == 0 && rawByName != nil {
			raw = rawByName[name]
		}
		out = append(out, Crossing{Name: name, Type: a.Type, Released: a.State == StateReleased, RawTx: raw})
	}
	return out
}
