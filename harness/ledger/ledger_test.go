package ledger

import (
	"encoding/base64"
	"fmt"
	"math/big"
	"os"
	"sort"
	"strings"
	"testing"

	"pgregory.net/rapid"

	"verif/hist"
	"verif/run"
	"verif/txgen"
)

func TestMain(m *testing.M) {
	run.Quiet()
	os.Exit(m.Run())
}

// TestDecodeGeneratedHistories runs generated histories of every profile on one replica and decodes the
// dump after every block: every key must be classified and every record must parse. With
// VERIF_LEDGER_PRINT=<file> the last dump of every history and its decoded totals are written there.
func TestDecodeGeneratedHistories(t *testing.T) {
	var out *os.File
	if p := os.Getenv("VERIF_LEDGER_PRINT"); p != "" {
		out, _ = os.Create(p)
		defer out.Close()
	}
	n := 0
	classes := map[string]int{}
	rapid.Check(t, func(rt *rapid.T) {
		n++
		p := hist.GenParams(rt, fmt.Sprint(n))
		prof := hist.ProfileNames[n%len(hist.ProfileNames)]
		w, err := hist.NewWorld(p, hist.Roles(p, 1))
		if err != nil {
			rt.Fatalf("world: %v", err)
		}
		defer w.Close()
		if _, err := w.Init(); err != nil {
			rt.Fatalf("init: %v", err)
		}
		g := &hist.Gen{W: w, T: rt, Hostile: 3, Strange: 5, Kinds: hist.Profiles[prof], Seen: map[string]int{}, TagsN: map[string]int{}}
		var last []txgen.Tx
		var l *Ledger
		for b := 0; b < 25; b++ {
			if len(w.Results) > 0 && last != nil {
				w.Observe(last, w.Results[len(w.Results)-1])
			}
			txs := g.DrawTxs(5)
			last = txs
			w.RunBlock(g.DrawEnv(txs))
			if w.R[0].Panicked {
				return
			}
			l, err = Decode(w.R[0].DumpMap())
			if err != nil {
				rt.Fatalf("height %d: %v", w.C.Height, err)
			}
			for _, e := range l.Entries {
				classes[e.Class]++
			}
		}
		if out != nil && l != nil {
			fmt.Fprintf(out, "==== history %d profile %s\n", n, prof)
			for _, kv := range w.R[0].Dump() {
				v := string(kv.V)
				if len(v) > 200 {
					v = v[:200] + "…"
				}
				fmt.Fprintf(out, "%q = %q\n", kv.K, v)
			}
			tot := l.TotalsByClass()
			var curs []string
			for c := range tot {
				curs = append(curs, c)
			}
			sort.Strings(curs)
			for _, c := range curs {
				fmt.Fprintf(out, "TOTAL %s: %v\n", c, tot[c])
			}
			fmt.Fprintf(out, "NEGATIVE: %v\nCROSS: %v\n", l.Negatives(), l.StakeCrossSums())
		}
	})
	t.Logf("decoded entries per class: %v", classes)
	for _, c := range []string{Balance, FeePool, FeeShare, StakeLocked, StakeValDeleg, StakeValTotal, ProposalEscrow, ProposalFunder} {
		if classes[c] == 0 {
			t.Errorf("class %s never decoded", c)
		}
	}
}

func TestUnknownPrefixFailsLoudly(t *testing.T) {
	d := map[string][]byte{
		"b_0lt00ff_OLT":    []byte(`"5"`),
		"newstore_x":       []byte(`"1"`),
		"bid_something":    []byte(`"1"`),
		"st__x_0lt00":      []byte(`"1"`),
		"delegRwz_matured": []byte(`"1"`),
	}
	_, err := Decode(d)
	u, ok := err.(*UnknownKeysError)
	if !ok {
		t.Fatalf("expected UnknownKeysError, got %v", err)
	}
	if len(u.Keys) != 4 || !strings.Contains(err.Error(), "newstore_x") {
		t.Fatalf("unexpected unknown key list %v", u.Keys)
	}
	if _, err := Decode(map[string][]byte{"b_0lt00ff_OLT": []byte(`5`)}); err == nil {
		t.Fatal("an unparsable amount must be an error")
	}
}

func TestViews(t *testing.T) {
	a, b := "0lt"+strings.Repeat("aa", 20), "0lt"+strings.Repeat("bb", 20)
	pool := OwnerOfRawString(DelegationPool)
	coin := func(n string) []byte {
		// amount is base64 of the JSON string
		return []byte(`{"currency":{"id":0,"name":"OLT","chain":0,"decimal":18,"unit":"nue"},"amount":"` + b64(`"`+n+`"`) + `"}`)
	}
	d := map[string][]byte{
		"b_" + a + "_OLT":    []byte(`"100"`),
		"b_" + a + "_ETH":    []byte(`"7"`),
		"b_" + pool + "_OLT": []byte(`"40"`),
		"b_" + OwnerOfRawString(SupplyAddrRaw) + "_ETH": []byte(`"7"`),
		"f_" + feePoolRawKey:                            []byte(`"3"`),
		"f_" + strings.Repeat("\xbb", 20):               []byte(`"2"`),
		"st__e_" + a + "_" + b:                          []byte(`"5"`),
		"st__t_" + a:                                    []byte(`"5"`),
		"st__d_e_" + b:                                  []byte(`"5"`),
		"st__d_b_" + b:                                  []byte(`"1"`),
		"st__m_9":                                       []byte(`{"Height":9,"Data":[{"Address":"` + b + `","Amount":"2","Height":9}]}`),
		"deleg_a_" + a:                                  coin("40"),
		"deleg_p_12_" + a:                               coin("6"),
		"delegRwz_balance_" + a:                         []byte(`"8"`),
		"delegRwz_pending_11_" + a:                      []byte(`"1"`),
		"delegRwz_total_rewards":                        []byte(`"9"`),
		"propFunds_i_" + strings.Repeat("0", 64) + "_" + a: []byte(`"10"`),
		"propFunds_t_" + strings.Repeat("0", 64):           []byte(`"10"`),
		"rwz_" + a + "_1":                                  []byte(`"999"`),
		"rwcum_balance_" + a:                               []byte(`"999"`),
	}
	l, err := Decode(d)
	if err != nil {
		t.Fatal(err)
	}
	tot := l.Totals()
	e18s := "000000000000000000"
	wantOLT, _ := new(big.Int).SetString("8"+e18s, 10) // stake 5+1+2 whole OLT
	wantOLT.Add(wantOLT, big.NewInt(100+40+3+2+6+8+1+10))
	if tot["OLT"].Cmp(wantOLT) != 0 {
		t.Fatalf("OLT total %s want %s", tot["OLT"], wantOLT)
	}
	if tot["ETH"].Cmp(big.NewInt(7)) != 0 {
		t.Fatalf("ETH total %s (the supply counter is not value)", tot["ETH"])
	}
	ha := l.Holdings(a)
	if ha["OLT"].Cmp(big.NewInt(100+40+6+8+1)) != 0 || ha["ETH"].Cmp(big.NewInt(7)) != 0 {
		t.Fatalf("holdings of a: %v", ha)
	}
	hb := l.Holdings(b)
	wantB, _ := new(big.Int).SetString("8"+e18s, 10)
	if hb["OLT"].Cmp(wantB) != 0 {
		t.Fatalf("holdings of b: %v", hb)
	}
	if len(l.Negatives()) != 0 || len(l.StakeCrossSums()) != 0 {
		t.Fatalf("unexpected findings %v %v", l.Negatives(), l.StakeCrossSums())
	}
	d["st__t_"+a] = []byte(`"6"`)
	d["deleg_p_12_"+a] = coin("-6")
	l, _ = Decode(d)
	if len(l.Negatives()) != 1 || len(l.StakeCrossSums()) != 1 {
		t.Fatalf("expected one negative and one cross-sum violation, got %v %v", l.Negatives(), l.StakeCrossSums())
	}
}

func b64(s string) string { return base64.StdEncoding.EncodeToString([]byte(s)) }
