package ledger

import (
	"fmt"
	"os"
	"sort"
	"strings"
	"testing"

	"pgregory.net/rapid"

	"verif/hist"
	"verif/run"
	"verif/txgen"
)

func TestMain(m *testing.M) {
	run.Quiet()
	os.Exit(m.Run())
}

func TestScratchDump(t *testing.T) {
	out, _ := os.Create("/dev/shm/ledger-scratch-dump.txt")
	defer out.Close()
	prefixes := map[string]int{}
	samples := map[string]string{}
	n := 0
	rapid.Check(t, func(rt *rapid.T) {
		n++
		p := hist.GenParams(rt, fmt.Sprint(n))
		prof := hist.ProfileNames[n%len(hist.ProfileNames)]
		w, err := hist.NewWorld(p, hist.Roles(p, 1))
		if err != nil {
			t.Fatal(err)
		}
		defer w.Close()
		if _, err := w.Init(); err != nil {
			t.Fatal(err)
		}
		g := &hist.Gen{W: w, T: rt, Hostile: 5, Strange: 5, Kinds: hist.Profiles[prof], Seen: map[string]int{}, TagsN: map[string]int{}}
		var last []txgen.Tx
		for b := 0; b < 30; b++ {
			if len(w.Results) > 0 && last != nil {
				w.Observe(last, w.Results[len(w.Results)-1])
			}
			txs := g.DrawTxs(5)
			last = txs
			spec := g.DrawEnv(txs)
			w.RunBlock(spec)
			if w.R[0].Panicked {
				return
			}
		}
		for _, kv := range w.R[0].Dump() {
			k := kv.K
			pre := k
			if i := strings.Index(k, "_"); i >= 0 {
				pre = k[:i+1]
				// second-level
				rest := k[i+1:]
				if j := strings.Index(rest, "_"); j >= 0 && j < 12 {
					pre = k[:i+1+j+1]
				}
			}
			prefixes[pre]++
			if _, ok := samples[pre]; !ok || len(samples[pre]) < 20 {
				v := string(kv.V)
				if len(v) > 300 {
					v = v[:300]
				}
				samples[pre] = fmt.Sprintf("%q = %q", k, v)
			}
		}
	})
	var ks []string
	for k := range prefixes {
		ks = append(ks, k)
	}
	sort.Strings(ks)
	for _, k := range ks {
		fmt.Fprintf(out, "%-30q %6d  %s\n", k, prefixes[k], samples[k])
	}
}
