package hist

import (
	"fmt"

	"pgregory.net/rapid"

	"verif/txgen"
)

// Bursts are composite actions: several related transactions for one block, so that deep
// states (two allegations decided in one block, a proposal passing at once) are reached often.

// AllegationPair opens two allegations by one active reporter against two different validators.
func (g *Gen) AllegationPair() []txgen.Tx {
	w := g.W
	act := w.ActiveValIdx()
	if len(act) < 3 {
		return []txgen.Tx{g.Allegation()}
	}
	ri := rapid.IntRange(0, len(act)-1).Draw(g.T, "pair-rep")
	rep := w.G.U.Vals[act[ri]]
	var out []txgen.Tx
	n := 0
	for k, ai := range act {
		if k == ri || n >= 2 {
			continue
		}
		acc := w.G.U.Vals[ai]
		id := fmt.Sprintf("req%d-%d", len(w.Allegs)+1+n, w.memoN)
		h := w.C.Height
		if h < 1 {
			h = 1
		}
		tx := txgen.Allegation(rep.Key, id, rep.Key.Addr, acc.Key.Addr, h, "proof", w.Fee, w.Memo())
		tx.Tags = []string{"alleg", "alleg-pair"}
		tx.Note = fmt.Sprintf("%s:%d:%d", id, rep.Idx, acc.Idx)
		out = append(out, g.note(tx))
		n++
	}
	return out
}

// VoteBurst makes every active validator vote on the (up to two) most recent open requests.
func (g *Gen) VoteBurst() []txgen.Tx {
	w := g.W
	if len(w.Allegs) == 0 {
		return []txgen.Tx{g.AllegationVote()}
	}
	act := w.ActiveValIdx()
	var out []txgen.Tx
	nreq := min(2, len(w.Allegs))
	yesBias := rapid.IntRange(0, 3).Draw(g.T, "burst-bias") // 0 => mostly no
	for r := 0; r < nreq; r++ {
		a := w.Allegs[len(w.Allegs)-1-r]
		for _, vi := range act {
			v := w.G.U.Vals[vi]
			choice := int8(1)
			if yesBias == 0 || rapid.IntRange(0, 5).Draw(g.T, "burst-no") == 0 {
				choice = 2
			}
			tx := txgen.AllegationVote(v.Key, a.ID, v.Key.Addr, choice, w.Fee, w.Memo())
			tx.Tags = []string{"vote-burst"}
			out = append(out, g.note(tx))
		}
	}
	return out
}

// ProposalPassBurst funds the most recent proposal to its goal and lets every active validator vote yes.
func (g *Gen) ProposalVoteBurst() []txgen.Tx {
	w := g.W
	if len(w.Props) == 0 {
		return []txgen.Tx{g.ProposalCreate()}
	}
	p := w.Props[len(w.Props)-1]
	if !w.PropVoting(p.ID) && w.PropFunding(p.ID) {
		return []txgen.Tx{g.ProposalFund()}
	}
	// prefer a proposal that is in voting status now
	for i := len(w.Props) - 1; i >= 0 && i >= len(w.Props)-4; i-- {
		if w.PropVoting(w.Props[i].ID) {
			p = w.Props[i]
			break
		}
	}
	var out []txgen.Tx
	op := rapid.SampledFrom([]int{1, 1, 1, 2}).Draw(g.T, "pburst-op")
	for _, vi := range w.ActiveValIdx() {
		v := w.G.U.Vals[vi]
		tx := g.voteTx(p, v, op)
		out = append(out, g.note(tx))
	}
	return out
}
