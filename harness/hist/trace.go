package hist

import (
	"verif/sim"
	"verif/txgen"
)

// Step is one step of a replayable history.
type Step struct {
	Kind    string         `json:"kind"` // block | check | crash | jobs
	Spec    *sim.BlockSpec `json:"spec,omitempty"`
	Kinds   []string       `json:"kinds,omitempty"` // tx kinds in the block (information)
	Tags    [][]string     `json:"tags,omitempty"`
	Tx      []byte         `json:"tx,omitempty"`      // check: the transaction
	TxKind  string         `json:"tx_kind,omitempty"` //
	Replica int            `json:"replica,omitempty"` // which replica the step applies to
	At      string         `json:"at,omitempty"`      // boundary (check/crash): before-begin | after-begin | after-tx:<k> | after-end | after-commit
	Arg     string         `json:"arg,omitempty"`
}

// Trace is the replay file payload of app-level properties.
type Trace struct {
	Params  sim.Params `json:"params"`
	Roles   []sim.Role `json:"roles"`
	Profile string     `json:"profile,omitempty"`
	Steps   []Step     `json:"steps"`
}

// BlockStep records a block step.
func BlockStep(spec sim.BlockSpec, txs []txgen.Tx) Step {
	s := Step{Kind: "block", Spec: &spec}
	for _, t := range txs {
		s.Kinds = append(s.Kinds, t.Kind)
		s.Tags = append(s.Tags, t.Tags)
	}
	return s
}

// Summary is a compact rendering of a trace for evidence samples.
func (t *Trace) Summary() map[string]interface{} {
	var blocks []string
	for _, s := range t.Steps {
		switch s.Kind {
		case "block":
			b := "["
			for i, k := range s.Kinds {
				if i > 0 {
					b += ","
				}
				b += k
			}
			blocks = append(blocks, b+"]")
		default:
			blocks = append(blocks, s.Kind+":"+s.At+s.TxKind)
		}
	}
	if len(blocks) > 40 {
		blocks = append(blocks[:40], "…")
	}
	return map[string]interface{}{
		"validators": len(t.Params.ValPower), "top": t.Params.TopCount, "fork": t.Params.Frankenstein,
		"profile": t.Profile, "roles": t.Roles, "steps": blocks,
	}
}
