package hist

import (
	"encoding/base64"
	"encoding/json"
	"math/big"
	"sort"
	"strconv"
	"strings"

	ethcmn "github.com/ethereum/go-ethereum/common"
	ethcrypto "github.com/ethereum/go-ethereum/crypto"
	"pgregory.net/rapid"

	"github.com/Oneledger/protocol/data/governance"
	"github.com/Oneledger/protocol/data/keys"

	"verif/sim"
	"verif/txgen"
)

// coinAmt decodes the amount of a serialised balance.Coin record
// ({"currency":{..},"amount":"<base64 of a JSON string>"}).
func coinAmt(v []byte) *big.Int {
	if len(v) == 0 {
		return big.NewInt(0)
	}
	var c struct {
		Amount string `json:"amount"`
	}
	if json.Unmarshal(v, &c) != nil {
		return big.NewInt(0)
	}
	raw, err := base64.StdEncoding.DecodeString(c.Amount)
	if err != nil {
		return big.NewInt(0)
	}
	return parseAmt(raw)
}

// CoinAmt is exported for oracles.
func CoinAmt(v []byte) *big.Int { return coinAmt(v) }

// ParseAmt is exported for oracles.
func ParseAmt(v []byte) *big.Int { return parseAmt(v) }

// WitnessList returns the ethereum witness addresses in the order the application iterates them.
func (w *World) WitnessList() []keys.Address {
	var out []keys.Address
	pre := "w_Ethereum_"
	w.Primary().App.Context.Storage().Chainstate.IterateRange([]byte("w_"), []byte("w`"), true, func(k, v []byte) bool {
		if strings.HasPrefix(string(k), pre) {
			out = append(out, keys.Address(append([]byte{}, k[len(pre):]...)))
		}
		return false
	})
	return out
}

// Action families and profiles.

type action struct {
	name string
	fn   func(g *Gen) txgen.Tx
}

var allActions = []action{
	{"send", (*Gen).Send}, {"sendpool", (*Gen).SendPool},
	{"stake", (*Gen).Stake}, {"unstake", (*Gen).Unstake}, {"withdraw", (*Gen).WithdrawStake}, {"withdraw_reward", (*Gen).WithdrawReward},
	{"delegate", (*Gen).Delegate}, {"undelegate", (*Gen).Undelegate}, {"deleg_withdraw", (*Gen).DelegWithdrawRewards}, {"deleg_reinvest", (*Gen).DelegReinvest},
	{"allegation", (*Gen).Allegation}, {"allegation_vote", (*Gen).AllegationVote}, {"release", (*Gen).Release},
	{"domain_create", (*Gen).DomainCreate}, {"domain_update", (*Gen).DomainUpdate}, {"domain_sale", (*Gen).DomainSale}, {"domain_purchase", (*Gen).DomainPurchase},
	{"domain_send", (*Gen).DomainSend}, {"domain_renew", (*Gen).DomainRenew}, {"domain_delete_sub", (*Gen).DomainDeleteSub},
	{"proposal_create", (*Gen).ProposalCreate}, {"proposal_fund", (*Gen).ProposalFund}, {"proposal_cancel", (*Gen).ProposalCancel}, {"proposal_vote", (*Gen).ProposalVote},
	{"proposal_withdraw", (*Gen).ProposalWithdrawFunds}, {"proposal_finalize", (*Gen).ProposalFinalize}, {"expire_votes", (*Gen).ExpireVotes},
	{"eth_lock", (*Gen).EthLock}, {"eth_redeem", (*Gen).EthRedeem}, {"erc20_lock", (*Gen).ERC20Lock}, {"erc20_redeem", (*Gen).ERC20Redeem}, {"report_finality", (*Gen).ReportFinality},
	{"olvm", (*Gen).OLVM},
	{"bid_create", (*Gen).BidCreate}, {"bid_counter_offer", (*Gen).BidCounterOffer}, {"bid_cancel", (*Gen).BidCancel},
	{"bid_bidder_decision", (*Gen).BidBidderDecision}, {"bid_owner_decision", (*Gen).BidOwnerDecision}, {"bid_expire", (*Gen).BidExpire},
}

// Profiles reweight the action families so that deep states are reached in short histories.
var Profiles = map[string]map[string]int{
	"mixed":      nil,
	"staking":    {"send": 2, "stake": 6, "unstake": 6, "withdraw": 5, "withdraw_reward": 3, "allegation": 1, "allegation_vote": 2, "release": 1},
	"evidence":   {"send": 1, "stake": 2, "unstake": 2, "withdraw": 1, "allegation": 5, "allegation_vote": 10, "release": 3},
	"governance": {"send": 1, "proposal_create": 4, "proposal_fund": 6, "proposal_vote": 10, "proposal_cancel": 1, "proposal_withdraw": 3, "proposal_finalize": 1, "expire_votes": 1, "stake": 1, "unstake": 1},
	"delegation": {"send": 1, "sendpool": 2, "delegate": 6, "undelegate": 6, "deleg_withdraw": 4, "deleg_reinvest": 3},
	"rewards":    {"send": 1, "sendpool": 3, "withdraw_reward": 5, "delegate": 3, "undelegate": 1, "deleg_withdraw": 2, "stake": 1, "unstake": 1},
	"eth":        {"send": 1, "eth_lock": 4, "eth_redeem": 3, "erc20_lock": 2, "erc20_redeem": 2, "report_finality": 12},
	"ons":        {"send": 1, "domain_create": 5, "domain_update": 3, "domain_sale": 4, "domain_purchase": 4, "domain_send": 2, "domain_renew": 3, "domain_delete_sub": 1},
	"olvm":       {"send": 3, "sendpool": 1, "olvm": 10},
	"bid": {"send": 1, "domain_create": 4, "domain_update": 1, "domain_sale": 1, "bid_create": 8, "bid_counter_offer": 5, "bid_cancel": 2,
		"bid_bidder_decision": 4, "bid_owner_decision": 3, "bid_expire": 2},
}

var ProfileNames = []string{"mixed", "staking", "evidence", "governance", "delegation", "rewards", "eth", "ons", "olvm", "bid"}

// Draw draws one transaction according to the generator's profile weights.
func (g *Gen) Draw() txgen.Tx {
	var names []string
	var fns []func(g *Gen) txgen.Tx
	for _, a := range allActions {
		wgt := 1
		if g.Kinds != nil {
			wgt = g.Kinds[a.name]
		}
		for i := 0; i < wgt; i++ {
			names = append(names, a.name)
			fns = append(fns, a.fn)
		}
	}
	i := g.Uniform(len(names), "action")
	return fns[i](g)
}

// burstWeights gives, per profile weight map, how often a composite burst replaces a single draw
// (in 1/20 steps); bursts reach states such as two verdicts in one block.
func (g *Gen) drawBurst() []txgen.Tx {
	k := g.Kinds
	ev, gov := 1, 1
	if k != nil {
		ev, gov = k["allegation_vote"], k["proposal_vote"]
	}
	r := g.Uniform(20, "burst")
	if k != nil && k["olvm"] >= 5 && r >= 17 {
		return g.OlvmNativeInterleave()
	}
	if k == nil && r == 2 {
		return g.OlvmNativeInterleave()
	}
	switch {
	case ev >= 5 && r < 2:
		return g.AllegationPair()
	case ev >= 5 && r < 5:
		return g.VoteBurst()
	case gov >= 5 && r < 3:
		return g.ProposalVoteBurst()
	case gov >= 5 && r < 5, k == nil && r == 3:
		return g.ProposalOptionsPair()
	case k == nil && r == 0:
		return g.VoteBurst()
	case k == nil && r == 1:
		return g.AllegationPair()
	}
	return nil
}

// DrawTxs draws 0..max single transactions (or composite bursts) for the next block.
func (g *Gen) DrawTxs(max int) []txgen.Tx {
	n := rapid.IntRange(0, max).Draw(g.T, "ntx")
	out := make([]txgen.Tx, 0, n)
	for i := 0; i < n; i++ {
		if b := g.drawBurst(); b != nil {
			out = append(out, b...)
			continue
		}
		out = append(out, g.Draw())
	}
	// a transaction the node refuses before executing it (a transfer signed by somebody else's key) as the block's
	// last transaction, in 1 of 8 blocks: whatever a refusal leaves behind meets the block-end hooks
	if g.Uniform(8, "trail-refused") == 0 && len(g.W.G.U.Users) >= 2 {
		us := g.W.G.U.Users
		a := us[g.Uniform(len(us), "trail-from")]
		b := us[(g.Uniform(len(us)-1, "trail-signer")+1+indexOfUser(us, a))%len(us)]
		tx := txgen.Send(b, a.Addr, b.Addr, txgen.Amt("OLT", big.NewInt(int64(1+g.Uniform(1000, "trail-amt")))), g.W.Fee, g.W.Memo())
		tx.Tags = []string{"signer-other", "refused-by-validate"}
		out = append(out, g.note(tx))
	}
	return out
}

func indexOfUser(us []*sim.User, a *sim.User) int {
	for i, x := range us {
		if x == a {
			return i
		}
	}
	return 0
}

// DrawEnv draws the block environment (time gap, proposer, absentees, byzantine evidence).
func (g *Gen) DrawEnv(txs []txgen.Tx) sim.BlockSpec {
	spec := sim.BlockSpec{}
	spec.GapSecs = int64(rapid.SampledFrom([]int{1, 2, 5, 5, 5, 17, 60, 3600, 86400}).Draw(g.T, "gap"))
	spec.ProposerIdx = rapid.IntRange(0, 15).Draw(g.T, "proposer")
	if rapid.IntRange(0, 3).Draw(g.T, "hasabsent") == 0 {
		na := rapid.IntRange(1, 2).Draw(g.T, "nabsent")
		for i := 0; i < na; i++ {
			spec.Absent = append(spec.Absent, rapid.IntRange(0, 15).Draw(g.T, "absent"))
		}
	}
	if rapid.IntRange(0, 29).Draw(g.T, "hasbyz") == 0 {
		spec.ByzIdx = []int{rapid.IntRange(0, 15).Draw(g.T, "byz")}
	}
	for _, tx := range txs {
		spec.Txs = append(spec.Txs, tx.Bytes)
	}
	// the rest of the mempool: transactions the node checks around this block without executing them in it
	// (a replica with ambient checks on runs them through CheckTx after EndBlock, after Commit and in between)
	if g.Uniform(3, "pool") == 0 {
		n := 1 + g.Uniform(2, "pool-n")
		for i := 0; i < n; i++ {
			spec.Pool = append(spec.Pool, g.Draw().Bytes)
		}
	}
	// the node itself is restarted before 1 block in 30 (honoured in single-replica histories); RestartPer overrides
	per := 30
	if g.RestartPer > 0 {
		per = g.RestartPer
	}
	if g.Uniform(per, "restart") == 0 {
		spec.Restart = true
	}
	// nodes that went down: absent from every commit from some height on (tendermint drops the ones that would
	// take the signers to 2/3 or less)
	if !g.downDrawn {
		g.downDrawn = true
		g.Down, g.DownFrom = DrawDown(g.Uniform, len(g.W.G.U.Vals))
	}
	spec.Absent = append(spec.Absent, DownAbsent(g.W, g.Down, g.DownFrom)...)
	return spec
}

// DrawDown draws the validators (universe indexes) whose nodes go down, and the height from which they are down:
// in 1 of 3 histories one validator, in 1 of 12 two.
func DrawDown(uniform func(n int, label string) int, nVals int) ([]int, int64) {
	if nVals < 2 {
		return nil, 0
	}
	var down []int
	switch r := uniform(12, "down"); {
	case r < 3:
		down = []int{uniform(nVals, "down-a")}
	case r == 3:
		a := uniform(nVals, "down-a")
		down = []int{a, (a + 1 + uniform(nVals-1, "down-b")) % nVals}
	}
	return down, int64(2 + uniform(25, "down-from"))
}

// DownAbsent returns, for the block about to be made, the positions in tendermint's last set of the validators
// that are down.
func DownAbsent(w *World, down []int, from int64) []int {
	if len(down) == 0 || w.C.Last == nil || w.C.Height+1 < from {
		return nil
	}
	var out []int
	for _, vi := range down {
		if vi < 0 || vi >= len(w.G.U.Vals) {
			continue
		}
		addr := w.G.U.Vals[vi].Key.Addr
		for i, v := range w.C.Last.Validators {
			if keys.Address(v.Address.Bytes()).Equal(addr) {
				out = append(out, i)
			}
		}
	}
	return out
}

// Observe updates the generator-side bookkeeping from the primary's results of a block.
func (w *World) Observe(txs []txgen.Tx, res *sim.BlockRes) {
	for i, tx := range txs {
		if i >= len(res.Txs) || res.Txs[i].Code != 0 {
			continue
		}
		parts := strings.Split(tx.Note, ":")
		switch tx.Kind {
		case "PROPOSAL_CREATE":
			if len(parts) == 5 {
				ui, _ := strconv.Atoi(parts[1])
				f, _ := strconv.ParseInt(parts[2], 10, 64)
				v, _ := strconv.ParseInt(parts[3], 10, 64)
				ty, _ := strconv.Atoi(parts[4])
				w.Props = append(w.Props, &PropInfo{ID: governance.ProposalID(parts[0]), Type: governance.ProposalType(ty), Proposer: ui, FundDL: f, VoteDL: v, Created: res.Height, Funders: []int{ui}})
			}
		case "DOMAIN_CREATE":
			if len(parts) == 2 {
				ui, _ := strconv.Atoi(parts[1])
				w.Domains = append(w.Domains, &DomInfo{Name: parts[0], Owner: ui})
			}
		case "ALLEGATION":
			if len(parts) == 3 {
				r, _ := strconv.Atoi(parts[1])
				a, _ := strconv.Atoi(parts[2])
				w.Allegs = append(w.Allegs, &AllegInfo{ID: parts[0], Reporter: r, Accused: a, Height: res.Height})
			}
		case "ETH_LOCK", "ETH_REDEEM", "ERC20_LOCK", "ERC20_REDEEM":
			if len(parts) == 3 {
				ui, _ := strconv.Atoi(parts[1])
				amt, _ := new(big.Int).SetString(parts[2], 10)
				raw := ethRawOf(tx)
				if raw != nil {
					w.Tracks = append(w.Tracks, &TrackInfo{Name: txgen.TrackerName(raw), Raw: raw, Kind: parts[0], Owner: ui, Amount: amt, Height: res.Height})
				}
			}
		case "OLVM":
			if len(parts) == 4 && parts[3] == "factoryrv" {
				n, _ := strconv.ParseUint(parts[2], 10, 64)
				for _, e := range w.G.U.Eth {
					if e.Name == parts[1] {
						w.FactoriesRv = append(w.FactoriesRv, ethcrypto.CreateAddress(e.Addr, n))
					}
				}
				parts = parts[:3]
			}
			if len(parts) == 4 && parts[3] == "nest" {
				n, _ := strconv.ParseUint(parts[2], 10, 64)
				for _, e := range w.G.U.Eth {
					if e.Name == parts[1] {
						w.Nests = append(w.Nests, ethcrypto.CreateAddress(e.Addr, n))
					}
				}
				parts = parts[:3]
			}
			if len(parts) == 4 && parts[3] == "factory" {
				n, _ := strconv.ParseUint(parts[2], 10, 64)
				for _, e := range w.G.U.Eth {
					if e.Name == parts[1] {
						w.Factories = append(w.Factories, ethcrypto.CreateAddress(e.Addr, n))
					}
				}
				parts = parts[:3]
			}
			if len(parts) == 3 {
				n, _ := strconv.ParseUint(parts[2], 10, 64)
				if n+1 > w.OlvmNext[parts[1]] {
					w.OlvmNext[parts[1]] = n + 1
				}
			}
		}
	}
	// contracts created: read keeper records with code
	w.refreshContracts()
}

func ethRawOf(tx txgen.Tx) []byte {
	// the signed tx is JSON; data is base64 of the message JSON which has ETHTxn
	var stx struct {
		Data []byte `json:"data"`
	}
	if json.Unmarshal(tx.Bytes, &stx) != nil {
		return nil
	}
	var m struct {
		ETHTxn []byte
	}
	if json.Unmarshal(stx.Data, &m) != nil {
		return nil
	}
	return m.ETHTxn
}

func (w *World) refreshContracts() {
	var out []ethcmn.Address
	empty := "xdJGAYb3IzySfn2y3McDwOUAtlPKgic7e/rYBF2FpHA="
	w.Primary().App.Context.Storage().Chainstate.IterateRange([]byte("keeper_"), []byte("keeper`"), true, func(k, v []byte) bool {
		var r struct {
			CodeHash string `json:"codeHash"`
		}
		if json.Unmarshal(v, &r) == nil && r.CodeHash != "" && r.CodeHash != empty {
			out = append(out, ethcmn.BytesToAddress(k[len("keeper_"):]))
		}
		return false
	})
	sort.Slice(out, func(i, j int) bool { return string(out[i].Bytes()) < string(out[j].Bytes()) })
	w.Contract = out
}
