package hist

import (
	"fmt"
	"os"
	"sort"
	"strings"
	"testing"

	"pgregory.net/rapid"

	"verif/run"
)

// TestBidReach measures the bid action family (VERIF_REACH=1): per kind how many transactions succeed per
// 100 histories of 30 blocks, in how many histories each kind succeeds at least once and each terminal state
// of a conversation is reached. VERIF_REACH_PROFILE selects the profile (default "bid").
func TestBidReach(t *testing.T) {
	if os.Getenv("VERIF_REACH") == "" {
		t.Skip("set VERIF_REACH=1")
	}
	prof := os.Getenv("VERIF_REACH_PROFILE")
	if prof == "" {
		prof = "bid"
	}
	kinds, has := Profiles[prof]
	if !has {
		t.Fatalf("no profile %q", prof)
	}
	out := run.Quiet()
	nHist := 0
	ok, all := map[string]int{}, map[string]int{}
	histWith := map[string]int{} // histories in which the event happened at least once
	events := map[string]int{}
	fails := map[string]map[string]int{}
	rapid.Check(t, func(rt *rapid.T) {
		p := GenParams(rt, "bidreach")
		w, err := NewWorld(p, Roles(p, 1))
		if err != nil {
			rt.Fatal(err)
		}
		defer w.Close()
		if _, err := w.Init(); err != nil {
			rt.Fatal(err)
		}
		nHist++
		seen := map[string]bool{}
		g := &Gen{W: w, T: rt, Hostile: 4, Strange: 8, Kinds: kinds}
		prevExpired := 0
		for b := 0; b < 30; b++ {
			txs := g.DrawTxs(5)
			spec := g.DrawEnv(txs)
			_, res := w.RunBlock(spec)
			if res[0].Aborted {
				rt.Fatalf("aborted")
			}
			w.Observe(txs, res[0])
			userExpired := 0
			for i, tx := range txs {
				if !strings.HasPrefix(tx.Kind, "BID_") {
					continue
				}
				all[tx.Kind]++
				if res[0].Txs[i].Code != 0 {
					l := res[0].Txs[i].Log
					if len(l) > 100 {
						l = l[:100]
					}
					if fails[tx.Kind] == nil {
						fails[tx.Kind] = map[string]int{}
					}
					fails[tx.Kind][fmt.Sprint(tx.Tags)+" "+l]++
					continue
				}
				ok[tx.Kind]++
				ev := []string{"ok " + tx.Kind}
				for _, tg := range tx.Tags {
					switch tg {
					case "decision-accept", "decision-reject", "bid-new", "bid-add-offer", "signer-valkey", "signer-valstake", "signer-stranger":
						ev = append(ev, "ok "+tx.Kind+" "+tg)
					}
				}
				if tx.Kind == "BID_EXPIRE" {
					userExpired++
				}
				for _, e := range ev {
					events[e]++
					seen[e] = true
				}
			}
			if n := len(w.BidConvs("Expired")); n-prevExpired-userExpired > 0 {
				events["expired by the block hook"] += n - prevExpired - userExpired
				seen["expired by the block hook"] = true
				prevExpired = n
			} else {
				prevExpired = n
			}
		}
		for _, st := range BidStates {
			cs := w.BidConvs(st)
			if n := len(cs); n > 0 {
				events["final store "+st] += n
				seen["final store "+st] = true
			}
			for _, c := range cs {
				if c.Type == 0x21 {
					events["final store "+st+" (ONS domain)"]++
					seen["final store "+st+" (ONS domain)"] = true
				}
			}
		}
		for e := range seen {
			histWith[e]++
		}
	})
	fmt.Fprintf(out, "== profile %s: %d histories x 30 blocks\n", prof, nHist)
	var ks []string
	for k := range all {
		ks = append(ks, k)
	}
	sort.Strings(ks)
	for _, k := range ks {
		fmt.Fprintf(out, "   %-22s %5d/%5d ok   (%.0f ok per 100 histories)\n", k, ok[k], all[k], 100*float64(ok[k])/float64(nHist))
	}
	var es []string
	for e := range events {
		es = append(es, e)
	}
	sort.Strings(es)
	for _, e := range es {
		fmt.Fprintf(out, "   %-46s %6d  (%.0f per 100 histories; in %d%% of the histories)\n", e, events[e], 100*float64(events[e])/float64(nHist), 100*histWith[e]/nHist)
	}
	for _, k := range ks {
		var fs []string
		for f := range fails[k] {
			fs = append(fs, f)
		}
		sort.Slice(fs, func(i, j int) bool {
			if fails[k][fs[i]] != fails[k][fs[j]] {
				return fails[k][fs[i]] > fails[k][fs[j]]
			}
			return fs[i] < fs[j]
		})
		fmt.Fprintf(out, "-- failures of %s\n", k)
		for i, f := range fs {
			if i > 9 {
				break
			}
			fmt.Fprintf(out, "   %4d %s\n", fails[k][f], f)
		}
	}
}
