package hist

import (
	"fmt"
	"math/big"

	ethcmn "github.com/ethereum/go-ethereum/common"

	"verif/txgen"
)

// OlvmNativeInterleave is a composite action for one block: the EVM touches a native account (a transfer of
// nothing, or of a little), a native transaction changes that account's balance, then the EVM changes the account
// again. Both ledgers' views of the account meet inside one block, in every order the three steps allow.
func (g *Gen) OlvmNativeInterleave() []txgen.Tx {
	w := g.W
	if len(w.G.U.Eth) == 0 || len(w.G.U.Users) < 2 {
		return []txgen.Tx{g.Send()}
	}
	e := w.G.U.Eth[g.Uniform(len(w.G.U.Eth), "il-e")]
	ai := g.Uniform(len(w.G.U.Users), "il-a")
	a := w.G.U.Users[ai]
	c := w.G.U.Users[(ai+1+g.Uniform(len(w.G.U.Users)-1, "il-c"))%len(w.G.U.Users)]
	to := ethcmn.BytesToAddress(a.Addr)
	nonce := w.OlvmNext[e.Name]
	fee := txgen.Fee{Price: big.NewInt(1000000000), Cur: "OLT", Gas: 21000}
	olvm := func(n uint64, val int64) txgen.Tx {
		tx := txgen.OLVM(e, txgen.OLVMArgs{ChainID: w.P.ChainID, Nonce: n, To: &to, Value: big.NewInt(val), Fee: fee})
		tx.Tags = []string{"olvm-transfer", "interleave"}
		tx.Note = fmt.Sprintf("olvm:%s:%d", e.Name, n)
		return g.note(tx)
	}
	if g.Uniform(3, "il-sender-shape") == 0 {
		// the EVM SENDER in the middle: a transaction of e that is refused before it executes (nonce too low, value above
		// its balance, memo that is not the nonce), a native transfer to e, then a valid transaction of e
		toA := to
		bad := txgen.OLVMArgs{ChainID: w.P.ChainID, Nonce: nonce, To: &toA, Value: big.NewInt(5), Fee: fee}
		tag := ""
		switch g.Uniform(3, "il-bad") {
		case 0:
			if nonce > 0 {
				bad.Nonce = nonce - 1
				tag = "nonce-low"
			} else {
				bad.Value = new(big.Int).Mul(big.NewInt(900000000), e18)
				tag = "value-over-balance"
			}
		case 1:
			bad.Value = new(big.Int).Mul(big.NewInt(900000000), e18)
			tag = "value-over-balance"
		default:
			m := "x"
			bad.Memo = &m
			tag = "olvm-bad-memo"
		}
		btx := txgen.OLVM(e, bad)
		btx.Tags = []string{"olvm-transfer", "interleave", tag}
		btx.Note = fmt.Sprintf("olvm:%s:%d", e.Name, bad.Nonce)
		credit := txgen.Send(a, a.Addr, e.OLAddr(), txgen.Amt("OLT", new(big.Int).Mul(big.NewInt(int64(1+g.Uniform(50, "il-credit"))), e18)), w.Fee, w.Memo())
		credit.Tags = []string{"interleave"}
		return []txgen.Tx{g.note(btx), g.note(credit), olvm(nonce, 1+int64(g.Uniform(1000, "il-v-ok")))}
	}
	v1 := []int64{0, 0, 1, 1000}[g.Uniform(4, "il-v1")]
	v3 := []int64{1, 1, 0, 1000000}[g.Uniform(4, "il-v3")]
	amt := new(big.Int).Mul(big.NewInt(int64(1+g.Uniform(500, "il-amt"))), e18)
	var native txgen.Tx
	switch g.Uniform(4, "il-native") {
	case 0, 1:
		native = txgen.Send(a, a.Addr, c.Addr, txgen.Amt("OLT", amt), w.Fee, w.Memo())
	case 2:
		native = txgen.Send(c, c.Addr, a.Addr, txgen.Amt("OLT", amt), w.Fee, w.Memo())
	default:
		native = txgen.Delegate(a, a.Addr, txgen.Amt("OLT", amt), w.Fee, w.Memo())
	}
	native.Tags = []string{"interleave"}
	native = g.note(native)
	out := []txgen.Tx{olvm(nonce, v1), native, olvm(nonce+1, v3)}
	if g.Uniform(4, "il-more") == 0 {
		n2 := txgen.Send(a, a.Addr, c.Addr, txgen.Amt("OLT", big.NewInt(int64(1+g.Uniform(1000, "il-amt2")))), w.Fee, w.Memo())
		n2.Tags = []string{"interleave"}
		out = append(out, g.note(n2), olvm(nonce+2, 1))
	}
	return out
}
