// Package hist generates block histories: a World holds the chain, the replicas and the
// generator-side bookkeeping; Gen draws transactions of every kind through rapid.
package hist

import (
	"encoding/json"
	"fmt"
	"math/big"
	"sort"
	"strings"

	ethcmn "github.com/ethereum/go-ethereum/common"

	"github.com/Oneledger/protocol/data/governance"
	"github.com/Oneledger/protocol/data/keys"

	"verif/sim"
	"verif/txgen"
)

// PropInfo is what the generator remembers about a proposal it created.
type PropInfo struct {
	ID       governance.ProposalID
	Type     governance.ProposalType
	Proposer int // user index
	FundDL   int64
	VoteDL   int64
	Created  int64
	Funders  []int
}

type DomInfo struct {
	Name  string
	Owner int // user index of the creator
}

type TrackInfo struct {
	Name   ethcmn.Hash
	Raw    []byte
	Kind   string // lock, redeem, erclock, ercredeem
	Owner  int    // user index
	Amount *big.Int
	Height int64
}

type AllegInfo struct {
	ID       string
	Reporter int // val index
	Accused  int // val index
	Height   int64
}

// World is one generated universe: genesis, chain, replicas, bookkeeping.
type World struct {
	P sim.Params
	G *sim.Genesis
	C *sim.Chain
	R []*sim.Replica

	Fee   txgen.Fee
	memoN int

	Props       []*PropInfo
	Domains     []*DomInfo
	Tracks      []*TrackInfo
	Allegs      []*AllegInfo
	OlvmNext    map[string]uint64 // next nonce per eth user (bookkeeping of executed txs)
	EthNonce    map[string]uint64 // nonce for embedded ethereum txs
	Contract    []ethcmn.Address
	Factories   []ethcmn.Address // deployed "fund, then deploy" factories (see rtFactory)
	FactoriesRv []ethcmn.Address // deployed factories whose value-carrying creation over a funded address reverts (see rtFactoryRv)
	Nests       []ethcmn.Address // deployed self-calling contracts whose inner frame creates an account and reverts (see rtNest)

	Results  []*sim.BlockRes // primary replica's results per block
	Restarts int             // restarts of the single replica performed so far (BlockSpec.Restart)
}

// NewWorld builds the genesis and the requested replicas and runs InitChain on each.
func NewWorld(p sim.Params, roles []sim.Role) (*World, error) {
	g := sim.BuildGenesis(p)
	c := sim.NewChain(g)
	w := &World{P: p, G: g, C: c, Fee: txgen.DefaultFee(), OlvmNext: map[string]uint64{}, EthNonce: map[string]uint64{}}
	for i, role := range roles {
		r, err := sim.NewReplica(fmt.Sprintf("n%d", i), g, c, role, "")
		if err != nil {
			w.Close()
			return nil, err
		}
		w.R = append(w.R, r)
	}
	return w, nil
}

// Init runs InitChain on every replica; returns each response.
func (w *World) Init() ([]sim.InitRes, error) {
	var out []sim.InitRes
	for _, r := range w.R {
		res := r.InitChain(w.C)
		out = append(out, sim.InitRes{Validators: res.Validators})
	}
	if len(w.R) > 0 {
		if err := w.C.SetInitialValidators(w.R[0].LastInit); err != nil {
			return out, err
		}
	}
	return out, nil
}

func (w *World) Close() {
	for _, r := range w.R {
		r.Close()
	}
}

func (w *World) Primary() *sim.Replica { return w.R[0] }

func (w *World) Memo() string {
	w.memoN++
	return fmt.Sprintf("m%d", w.memoN)
}

// ---- state reads on the primary's committed tree ----

func (w *World) Get(key string) []byte {
	v, _ := w.Primary().App.Context.Storage().Chainstate.Get([]byte(key))
	return v
}

func parseAmt(v []byte) *big.Int {
	if len(v) == 0 {
		return big.NewInt(0)
	}
	var s string
	if err := json.Unmarshal(v, &s); err != nil {
		return big.NewInt(0)
	}
	b, ok := new(big.Int).SetString(s, 10)
	if !ok {
		return big.NewInt(0)
	}
	return b
}

// Bal returns the committed balance of addr in currency cur.
func (w *World) Bal(addr keys.Address, cur string) *big.Int {
	return parseAmt(w.Get("b_" + addr.String() + "_" + cur))
}

// ValRec is a validator record of the committed state.
type ValRec struct {
	Address      keys.Address `json:"address"`
	StakeAddress keys.Address `json:"stakeAddress"`
	Power        int64        `json:"power"`
	Name         string       `json:"name"`
	Staking      string       `json:"staking"`
}

// ValRecs returns the committed validator records sorted by address.
func (w *World) ValRecs() []ValRec {
	var out []ValRec
	w.Primary().App.Context.Storage().Chainstate.IterateRange([]byte("v_"), []byte("v`"), true, func(k, v []byte) bool {
		var r ValRec
		if json.Unmarshal(v, &r) == nil {
			out = append(out, r)
		}
		return false
	})
	sort.Slice(out, func(i, j int) bool { return string(out[i].Address) < string(out[j].Address) })
	return out
}

// ValIdxByAddr maps a validator address to its index in the key universe (-1 if unknown).
func (w *World) ValIdxByAddr(a keys.Address) int {
	for i, v := range w.G.U.Vals {
		if v.Key.Addr.Equal(a) {
			return i
		}
	}
	return -1
}

// ActiveValIdx returns the universe indexes of the validators in tendermint's current set.
func (w *World) ActiveValIdx() []int {
	var out []int
	if w.C.Vals == nil {
		return out
	}
	for _, v := range w.C.Vals.Validators {
		if i := w.ValIdxByAddr(keys.Address(v.Address.Bytes())); i >= 0 {
			out = append(out, i)
		}
	}
	sort.Ints(out)
	return out
}

// IsFrozen reads the evidence store's frozen record for the validator.
func (w *World) IsFrozen(a keys.Address) bool {
	v := w.Get("es__ssvk_" + a.String())
	if len(v) == 0 {
		return false
	}
	var r struct {
		Status int8
	}
	if json.Unmarshal(v, &r) != nil {
		return false
	}
	return r.Status != 0 && !strings.Contains(string(v), `"Status":0`)
}

// ---- running blocks ----

// RunBlock makes the block from spec, executes it on every replica and advances the chain
// with the primary's result. It returns every replica's result.
func (w *World) RunBlock(spec sim.BlockSpec) (*sim.Block, []*sim.BlockRes) {
	if spec.Restart && len(w.R) == 1 && w.C.Height >= 1 && !w.R[0].Panicked && !w.R[0].Closed() {
		// a node-local event between two blocks: stop, start again on the data directory (real Prepare(), Info). What
		// the application keeps only in memory is gone; everything the monitors read afterwards comes from the new
		// incarnation. A harness-side failure (copy of a compacting database) leaves the old incarnation running.
		if nr, err := sim.Restart(w.R[0], w.C, fmt.Sprintf("rs%d", w.C.Height)); err == nil {
			w.R[0] = nr
			w.Restarts++
		}
	}
	b := w.C.MakeBlock(spec)
	var out []*sim.BlockRes
	for _, r := range w.R {
		out = append(out, r.RunBlock(b))
	}
	w.Results = append(w.Results, out[0])
	if !out[0].Aborted {
		_ = w.C.Advance(out[0].AppHash, out[0].Updates)
	}
	return b, out
}
