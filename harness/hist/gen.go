package hist

import (
	"bytes"
	"fmt"
	"math/big"

	ethcmn "github.com/ethereum/go-ethereum/common"
	ethtypes "github.com/ethereum/go-ethereum/core/types"
	ethcrypto "github.com/ethereum/go-ethereum/crypto"
	"github.com/ethereum/go-ethereum/rlp"
	"pgregory.net/rapid"

	paction "github.com/Oneledger/protocol/action"
	agov "github.com/Oneledger/protocol/action/governance"
	"github.com/Oneledger/protocol/data/balance"
	"github.com/Oneledger/protocol/data/governance"
	"github.com/Oneledger/protocol/data/keys"
	"github.com/Oneledger/protocol/serialize"
	"github.com/Oneledger/protocol/vm"

	"verif/sim"
	"verif/txgen"
)

// Gen draws transactions for a World through rapid.
type Gen struct {
	W       *World
	T       *rapid.T
	Hostile int                   // percent of argument draws taken from the hostile pools
	Strange int                   // percent of "inapplicable" choices (wrong signer, someone else's address, wrong stage)
	Excl    func(tag string) bool // known-finding exclusions (may be nil)
	Kinds   map[string]int        // weight per action family name; nil => Mixed
	salt    uint64
	Seen    map[string]int // kinds drawn
	TagsN   map[string]int // value-class tags drawn

	// validators whose node is down (absent from every commit) from height DownFrom on; drawn by the first DrawEnv
	Down      []int
	DownFrom  int64
	downDrawn bool

	// RestartPer: the node is restarted before 1 block in RestartPer (0 = the default 30)
	RestartPer int

	// NoBlockGasObserver: generated contracts do not read GASLIMIT (the chain feeds it the block's running gas total,
	// the one thing a failed transaction may advance: C06's twin legitimately differs in it)
	NoBlockGasObserver bool

	// set by ProposalOptionsPair around its two ProposalCreate draws
	forceCfg string
	forceTyp *governance.ProposalType
}

var (
	pow63  = new(big.Int).Lsh(big.NewInt(1), 63)
	pow64  = new(big.Int).Lsh(big.NewInt(1), 64)
	pow200 = new(big.Int).Lsh(big.NewInt(1), 200)
	pow256 = new(big.Int).Lsh(big.NewInt(1), 256)
	e18    = new(big.Int).Exp(big.NewInt(10), big.NewInt(18), nil)
)

// pct returns true with probability p/100. rapid's integer generators are deliberately biased
// towards small values (IntRange(0,99) < 4 holds ~30% of the time), so the draw is passed through a
// mixing function with a per-call salt: still a pure function of rapid's choices (shrinks and
// replays), but approximately uniform.
func (g *Gen) pct(p int, label string) bool {
	if p <= 0 {
		return false
	}
	return g.Uniform(100, label) < p
}

// Uniform draws an approximately uniform integer in [0, n).
func (g *Gen) Uniform(n int, label string) int {
	if n <= 1 {
		return 0
	}
	g.salt++
	x := rapid.Uint64().Draw(g.T, label) + g.salt*0x9e3779b97f4a7c15
	x ^= x >> 30
	x *= 0xbf58476d1ce4e5b9
	x ^= x >> 27
	x *= 0x94d049bb133111eb
	x ^= x >> 31
	return int(x % uint64(n))
}

func (g *Gen) excluded(tag string) bool { return g.Excl != nil && g.Excl(tag) }

func (g *Gen) tag(tx *txgen.Tx, t string) {
	tx.Tags = append(tx.Tags, t)
}

// amount draws an amount: mostly applicable (1..cap), sometimes hostile. base = "base units";
// returns the value and its class tag.
func (g *Gen) amount(capv *big.Int, label string) (*big.Int, string) {
	if g.pct(g.Hostile, label+"-h") {
		k := rapid.IntRange(0, 11).Draw(g.T, label+"-hk")
		switch k {
		case 0:
			return new(big.Int).Neg(pow200), "amt-neg-huge"
		case 1:
			return new(big.Int).Neg(new(big.Int).Add(pow64, big.NewInt(1))), "amt-neg-2^64"
		case 2:
			return big.NewInt(-1), "amt-neg"
		case 3:
			return big.NewInt(-int64(rapid.IntRange(2, 1000000).Draw(g.T, label+"-n"))), "amt-neg"
		case 4:
			return big.NewInt(0), "amt-zero"
		case 5:
			return new(big.Int).Set(capv), "amt-all"
		case 6:
			return new(big.Int).Add(capv, big.NewInt(1)), "amt-over"
		case 7:
			return new(big.Int).Sub(pow63, big.NewInt(1)), "amt-2^63-1"
		case 8:
			return new(big.Int).Set(pow63), "amt-2^63"
		case 9:
			return new(big.Int).Add(pow64, big.NewInt(int64(rapid.IntRange(0, 5000000).Draw(g.T, label+"-k")))), "amt-2^64+k"
		case 10:
			return new(big.Int).Set(pow256), "amt-2^256"
		default:
			return big.NewInt(1), "amt-one"
		}
	}
	if capv.Sign() <= 0 {
		return big.NewInt(1), "amt-ok"
	}
	// the boundary "everything" is a legal, common request: not only a hostile one
	if g.Uniform(12, label+"-all") == 0 {
		return new(big.Int).Set(capv), "amt-all"
	}
	// 1..cap, biased small
	c := capv
	if c.IsInt64() {
		v := rapid.Int64Range(1, c.Int64()).Draw(g.T, label)
		return big.NewInt(v), "amt-ok"
	}
	// large cap: draw a fraction in 1/1000 steps plus small noise
	f := rapid.IntRange(1, 1000).Draw(g.T, label+"-f")
	v := new(big.Int).Mul(c, big.NewInt(int64(f)))
	v.Div(v, big.NewInt(1000+int64(rapid.IntRange(0, 100000).Draw(g.T, label+"-d"))))
	if v.Sign() <= 0 {
		v = big.NewInt(1)
	}
	return v, "amt-ok"
}

func (g *Gen) currency(def string, label string) (string, string) {
	if g.pct(g.Hostile, label+"-h") {
		k := rapid.IntRange(0, 6).Draw(g.T, label+"-hk")
		switch k {
		case 0:
			return "VT", "cur-other"
		case 1:
			return "ETH", "cur-other"
		case 2:
			return "", "cur-unknown"
		case 3:
			return "olt", "cur-unknown"
		case 4:
			return "XYZ", "cur-unknown"
		case 5:
			return "TTC", "cur-other"
		default:
			return "BTC", "cur-other"
		}
	}
	return def, "cur-ok"
}

// fee returns the fee of the next transaction: the world's default, or (Hostile percent of the draws) a gas limit in
// the range of what native transactions really use, so that some handlers succeed and the fee step then fails for
// gas ("gas overflow"), others are refused outright
func (g *Gen) fee() txgen.Fee {
	f := g.W.Fee
	if g.pct(g.Hostile, "fee-h") {
		f.Gas = []int64{1, 20000, 30000, 40000, 50000, 60000, 80000, 120000}[g.Uniform(8, "fee-gas")]
	}
	return f
}

func (g *Gen) user(label string) (int, *sim.User) {
	i := rapid.IntRange(0, len(g.W.G.U.Users)-1).Draw(g.T, label)
	return i, g.W.G.U.Users[i]
}

func (g *Gen) val(label string) *sim.Val {
	return g.W.G.U.Vals[rapid.IntRange(0, len(g.W.G.U.Vals)-1).Draw(g.T, label)]
}

// someAddr draws a destination / named address: users, stake accounts, pools, odd ones.
func (g *Gen) someAddr(label string) (keys.Address, string) {
	u := g.W.G.U
	k := rapid.IntRange(0, 9).Draw(g.T, label+"-k")
	if k >= 7 && g.pct(g.Hostile, label+"-h") {
		switch rapid.IntRange(0, 6).Draw(g.T, label+"-hk") {
		case 0:
			return nil, "addr-nil"
		case 1:
			return keys.Address{}, "addr-empty"
		case 2:
			return keys.Address(make([]byte, 19)), "addr-19"
		case 3:
			return keys.Address(make([]byte, 21)), "addr-21"
		case 4:
			return keys.Address("00000000000000000001"), "addr-pool"
		case 5:
			return keys.Address(sim.SupplyAddr), "addr-supply"
		default:
			return keys.Address(sim.RewardPoolAddr), "addr-pool"
		}
	}
	switch {
	case k < 5:
		_, x := g.user(label + "-u")
		return x.Addr, "addr-user"
	case k < 7:
		return g.val(label + "-v").Stake.Addr, "addr-stake"
	case k < 8:
		return u.Eth[rapid.IntRange(0, len(u.Eth)-1).Draw(g.T, label+"-e")].OLAddr(), "addr-eth"
	default:
		b := make([]byte, 20)
		b[19] = byte(rapid.IntRange(1, 5).Draw(g.T, label+"-r"))
		return keys.Address(b), "addr-fresh"
	}
}

// signerFor returns the key that should sign for addr, or (with Strange probability) somebody else.
func (g *Gen) signerFor(owner *sim.User, label string) (*sim.User, bool) {
	if g.pct(g.Strange, label+"-s") {
		_, o := g.user(label + "-o")
		return o, !o.Addr.Equal(owner.Addr)
	}
	return owner, false
}

func oltWhole(n int64) *big.Int { return new(big.Int).Mul(big.NewInt(n), e18) }

func (g *Gen) note(tx txgen.Tx) txgen.Tx {
	// the signature list is not covered by any signature: somebody else's key entry (with junk for a signature) in front
	// of, or behind, the genuine entries — the fee step charges the first entry's account
	if tx.Kind != "OLVM" && len(g.W.G.U.Users) > 0 && g.pct(g.Strange/6, "sig-list") {
		var stx paction.SignedTx
		if serialize.GetSerializer(serialize.NETWORK).Deserialize(tx.Bytes, &stx) == nil && len(stx.Signatures) > 0 {
			victim := g.W.G.U.Users[g.Uniform(len(g.W.G.U.Users), "sig-list-victim")]
			extra := paction.Signature{Signer: victim.Pub, Signed: []byte("sixty-four bytes that are not a signature of anything whatsoever.")}
			if g.Uniform(3, "sig-list-where") == 0 {
				stx.Signatures = append(stx.Signatures, extra)
			} else {
				stx.Signatures = append([]paction.Signature{extra}, stx.Signatures...)
			}
			if b, err := serialize.GetSerializer(serialize.NETWORK).Serialize(stx); err == nil {
				tx.Bytes = b
			}
			tx.Tags = append(tx.Tags, "signature-list-extended")
		}
	}
	if g.Seen != nil {
		g.Seen[tx.Kind]++
	}
	if g.TagsN != nil {
		for _, t := range tx.Tags {
			g.TagsN[t]++
		}
	}
	return tx
}

// ---------------- transfers ----------------

func (g *Gen) Send() txgen.Tx {
	w := g.W
	_, from := g.user("from")
	// stake accounts also send
	if rapid.IntRange(0, 5).Draw(g.T, "fromstake") == 0 {
		from = g.val("fromv").Stake
	}
	to, atag := g.someAddr("to")
	cur, ctag := g.currency("OLT", "cur")
	capv := w.Bal(from.Addr, "OLT")
	if cur != "OLT" {
		capv = w.Bal(from.Addr, cur)
	}
	capv = new(big.Int).Div(capv, big.NewInt(50))
	amt, mtag := g.amount(capv, "amt")
	signer, strange := g.signerFor(from, "signer")
	tx := txgen.Send(signer, from.Addr, to, txgen.Amt(cur, amt), g.fee(), w.Memo())
	tx.Tags = []string{atag, ctag, mtag}
	if strange {
		g.tag(&tx, "signer-other")
	}
	return g.note(tx)
}

func (g *Gen) SendPool() txgen.Tx {
	w := g.W
	_, from := g.user("from")
	pool := rapid.SampledFrom([]string{"RewardsPool", "DelegationPool", "RewardsPool", "BountyPool", "FeePool", "NoSuchPool", ""}).Draw(g.T, "pool")
	cur, ctag := g.currency("OLT", "cur")
	capv := new(big.Int).Div(w.Bal(from.Addr, "OLT"), big.NewInt(50))
	amt, mtag := g.amount(capv, "amt")
	signer, strange := g.signerFor(from, "signer")
	tx := txgen.SendPool(signer, from.Addr, pool, txgen.Amt(cur, amt), g.fee(), w.Memo())
	tx.Tags = []string{"pool-" + pool, ctag, mtag}
	if strange {
		g.tag(&tx, "signer-other")
	}
	return g.note(tx)
}

// ---------------- staking ----------------

// stakeAmount draws a whole-OLT stake amount.
func (g *Gen) stakeAmount(capWhole int64, label string) (*big.Int, string) {
	if capWhole < 1 {
		capWhole = 1
	}
	return g.amount(big.NewInt(capWhole), label)
}

// zeroPowerRecord reports whether the validator has a committed record with power <= 0 (it is deleted at
// the next block end; staking to it in that window is a known finding, exclusion STAKE:zero-power-record).
func (g *Gen) zeroPowerRecord(v *sim.Val) bool {
	for _, r := range g.W.ValRecs() {
		if r.Address.Equal(v.Key.Addr) {
			return r.Power <= 0
		}
	}
	return false
}

func (g *Gen) Stake() txgen.Tx {
	w := g.W
	v := g.val("val")
	if g.zeroPowerRecord(v) && g.excluded("STAKE:zero-power-record") {
		found := false
		for _, o := range w.G.U.Vals {
			if !g.zeroPowerRecord(o) {
				v, found = o, true
				break
			}
		}
		if !found {
			return g.Send()
		}
	}
	stakeAcc := v.Stake
	if g.pct(g.Strange, "otherstake") {
		_, u := g.user("stakeuser")
		stakeAcc = u
	}
	// around the minimum self delegation so that election boundaries are crossed
	min := w.P.MinSelfDeleg
	if w.P.Frankenstein != 0 && w.C.Height >= w.P.Frankenstein {
		min = 500000
	}
	var amt *big.Int
	var mtag string
	switch rapid.IntRange(0, 3).Draw(g.T, "shape") {
	case 0:
		amt, mtag = big.NewInt(min+int64(rapid.IntRange(-3, 10).Draw(g.T, "d"))), "amt-ok"
	case 1:
		amt, mtag = big.NewInt(int64(rapid.IntRange(1, 50).Draw(g.T, "small"))), "amt-ok"
	default:
		amt, mtag = g.stakeAmount(min/2, "amt")
	}
	cur, ctag := g.currency("OLT", "cur")
	signers := []*sim.User{stakeAcc, v.Key}
	strange := false
	if g.pct(g.Strange, "sig") {
		strange = true
		switch rapid.IntRange(0, 3).Draw(g.T, "sigk") {
		case 0:
			signers = []*sim.User{stakeAcc}
		case 1:
			signers = []*sim.User{v.Key, stakeAcc}
		case 2:
			_, o := g.user("o")
			signers = []*sim.User{o, v.Key}
		default:
			signers = []*sim.User{stakeAcc, g.val("ov").Key}
		}
	}
	tx := txgen.Stake(v, stakeAcc.Addr, txgen.Amt(cur, amt), g.fee(), w.Memo(), signers...)
	tx.Tags = []string{ctag, mtag}
	if strange {
		g.tag(&tx, "signer-other")
	}
	return g.note(tx)
}

func (g *Gen) pickStakedVal(label string) (*sim.Val, ValRec, bool) {
	recs := g.W.ValRecs()
	if len(recs) == 0 {
		return g.val(label + "-any"), ValRec{}, false
	}
	r := recs[rapid.IntRange(0, len(recs)-1).Draw(g.T, label)]
	i := g.W.ValIdxByAddr(r.Address)
	if i < 0 {
		return g.val(label + "-any"), r, false
	}
	return g.W.G.U.Vals[i], r, true
}

func (g *Gen) Unstake() txgen.Tx {
	w := g.W
	v, rec, ok := g.pickStakedVal("val")
	stakeAcc := v.Stake
	if ok {
		if u := w.G.U.ByAddr(rec.StakeAddress); u != nil {
			stakeAcc = u
		}
	}
	locked := parseAmt(w.Get("st__e_" + v.Key.Addr.String() + "_" + stakeAcc.Addr.String()))
	amt, mtag := g.stakeAmount(locked.Int64(), "amt")
	if rapid.IntRange(0, 3).Draw(g.T, "small") != 0 && mtag == "amt-ok" {
		amt = big.NewInt(int64(rapid.IntRange(1, 20).Draw(g.T, "smallv")))
	}
	valAddr := v.Key.Addr
	atag := "val-ok"
	if g.pct(g.Strange, "otherval") {
		valAddr = g.val("ov").Key.Addr
		atag = "val-other"
	}
	signers := []*sim.User{stakeAcc, v.Key}
	if g.pct(g.Strange, "sig") {
		_, o := g.user("o")
		signers = []*sim.User{o, v.Key}
		atag += ",signer-other"
	}
	tx := txgen.Unstake(valAddr, stakeAcc.Addr, txgen.Amt("OLT", amt), g.fee(), w.Memo(), signers...)
	tx.Tags = []string{atag, mtag}
	return g.note(tx)
}

func (g *Gen) WithdrawStake() txgen.Tx {
	w := g.W
	v, rec, ok := g.pickStakedVal("val")
	stakeAcc := v.Stake
	if ok {
		if u := w.G.U.ByAddr(rec.StakeAddress); u != nil {
			stakeAcc = u
		}
	}
	bounded := parseAmt(w.Get("st__d_b_" + stakeAcc.Addr.String()))
	amt, mtag := g.stakeAmount(bounded.Int64(), "amt")
	valAddr := v.Key.Addr
	atag := "val-ok"
	valKey := v.Key
	if g.pct(g.Strange, "otherval") {
		if rapid.Bool().Draw(g.T, "nonexist") {
			b := make([]byte, 20)
			b[0] = 0x77
			valAddr = keys.Address(b)
			atag = "val-nonexistent"
		} else {
			ov := g.val("ov")
			valAddr, valKey = ov.Key.Addr, ov.Key
			atag = "val-other"
		}
	}
	signers := []*sim.User{stakeAcc, valKey}
	tx := txgen.WithdrawStake(valAddr, stakeAcc.Addr, txgen.Amt("OLT", amt), g.fee(), w.Memo(), signers...)
	tx.Tags = []string{atag, mtag}
	return g.note(tx)
}

func (g *Gen) WithdrawReward() txgen.Tx {
	w := g.W
	v, rec, ok := g.pickStakedVal("val")
	signer := v.Stake
	if ok {
		if u := w.G.U.ByAddr(rec.StakeAddress); u != nil {
			signer = u
		}
	}
	matured := parseAmt(w.Get("rwcum_balance_" + v.Key.Addr.String()))
	withdrawn := parseAmt(w.Get("rwcum_withdrawn_" + v.Key.Addr.String()))
	capv := new(big.Int).Sub(matured, withdrawn)
	amt, mtag := g.amount(capv, "amt")
	cur, ctag := g.currency("OLT", "cur")
	s2, strange := g.signerFor(signer, "signer")
	tx := txgen.WithdrawReward(v.Key.Addr, s2.Addr, txgen.Amt(cur, amt), g.fee(), w.Memo(), s2)
	tx.Tags = []string{mtag, ctag}
	if strange {
		g.tag(&tx, "signer-other")
	}
	return g.note(tx)
}

// ---------------- network delegation ----------------

func (g *Gen) delegUser(label string) *sim.User {
	// concentrate on few delegators so that several operations per delegator happen
	i := rapid.IntRange(0, min(3, len(g.W.G.U.Users)-1)).Draw(g.T, label)
	return g.W.G.U.Users[i]
}

func (g *Gen) Delegate() txgen.Tx {
	w := g.W
	u := g.delegUser("u")
	capv := new(big.Int).Div(w.Bal(u.Addr, "OLT"), big.NewInt(100))
	amt, mtag := g.amount(capv, "amt")
	cur, ctag := g.currency("OLT", "cur")
	s, strange := g.signerFor(u, "signer")
	tx := txgen.Delegate(s, u.Addr, txgen.Amt(cur, amt), g.fee(), w.Memo())
	tx.Tags = []string{mtag, ctag}
	if strange {
		g.tag(&tx, "signer-other")
	}
	return g.note(tx)
}

func (g *Gen) Undelegate() txgen.Tx {
	w := g.W
	u := g.delegUser("u")
	active := coinAmt(w.Get("deleg_a_" + u.Addr.String()))
	amt, mtag := g.amount(active, "amt")
	cur, ctag := g.currency("OLT", "cur")
	if ctag == "cur-unknown" && g.excluded("NETWORK_UNDELEGATE:cur-unknown") {
		cur, ctag = "OLT", "cur-ok"
	}
	if (mtag == "amt-neg" || mtag == "amt-neg-huge" || mtag == "amt-neg-2^64") && g.excluded("NETWORK_UNDELEGATE:amt-neg") {
		amt, mtag = big.NewInt(1), "amt-ok"
	}
	s, strange := g.signerFor(u, "signer")
	tx := txgen.Undelegate(s, u.Addr, txgen.Amt(cur, amt), g.fee(), w.Memo())
	tx.Tags = []string{mtag, ctag}
	if strange {
		g.tag(&tx, "signer-other")
	}
	return g.note(tx)
}

func (g *Gen) DelegWithdrawRewards() txgen.Tx {
	w := g.W
	u := g.delegUser("u")
	bal := parseAmt(w.Get("delegRwz_balance_" + u.Addr.String()))
	amt, mtag := g.amount(bal, "amt")
	cur, ctag := g.currency("OLT", "cur")
	s, strange := g.signerFor(u, "signer")
	tx := txgen.DelegWithdrawRewards(s, u.Addr, txgen.Amt(cur, amt), g.fee(), w.Memo())
	tx.Tags = []string{mtag, ctag}
	if strange {
		g.tag(&tx, "signer-other")
	}
	return g.note(tx)
}

func (g *Gen) DelegReinvest() txgen.Tx {
	w := g.W
	u := g.delegUser("u")
	bal := parseAmt(w.Get("delegRwz_balance_" + u.Addr.String()))
	amt, mtag := g.amount(bal, "amt")
	cur, ctag := g.currency("OLT", "cur")
	s, strange := g.signerFor(u, "signer")
	tx := txgen.DelegReinvest(s, u.Addr, txgen.Amt(cur, amt), g.fee(), w.Memo())
	tx.Tags = []string{mtag, ctag}
	if strange {
		g.tag(&tx, "signer-other")
	}
	return g.note(tx)
}

// ---------------- evidence ----------------

func (g *Gen) activeVal(label string) *sim.Val {
	act := g.W.ActiveValIdx()
	if len(act) == 0 || g.pct(g.Strange, label+"-s") {
		return g.val(label + "-any")
	}
	return g.W.G.U.Vals[act[rapid.IntRange(0, len(act)-1).Draw(g.T, label)]]
}

func (g *Gen) Allegation() txgen.Tx {
	w := g.W
	rep := g.activeVal("rep")
	acc := g.activeVal("acc")
	if acc.Idx == rep.Idx && !g.pct(g.Strange, "selfalleg") {
		if act := w.ActiveValIdx(); len(act) > 1 {
			for _, ai := range act {
				if ai != rep.Idx {
					acc = w.G.U.Vals[ai]
					break
				}
			}
		}
	}
	id := fmt.Sprintf("req%d", len(w.Allegs)+1)
	if len(w.Allegs) > 0 && g.pct(g.Strange, "dupid") {
		id = w.Allegs[rapid.IntRange(0, len(w.Allegs)-1).Draw(g.T, "dup")].ID
	}
	signer := rep.Key
	tags := []string{"alleg"}
	// unusual but legal request ids (the RPC service always fills one in; a hand-built transaction need not)
	if g.pct(g.Hostile+3, "oddid") {
		id = []string{"", "", " ", "req1", "a_b", "\x00"}[g.Uniform(6, "oddidv")]
		tags = append(tags, "alleg-odd-id")
	}
	if g.pct(g.Strange, "outsider") {
		_, u := g.user("o")
		signer = u
		tags = append(tags, "signer-other")
	}
	h := w.C.Height
	if h < 1 {
		h = 1
	}
	// an allegation may be about any earlier block, not only the current one
	if h > 2 && g.pct(25, "oldheight") {
		h = int64(1 + g.Uniform(int(h)-1, "oldheightv"))
		tags = append(tags, "alleg-old-height")
	}
	tx := txgen.Allegation(signer, id, rep.Key.Addr, acc.Key.Addr, h, "proof", g.fee(), w.Memo())
	tx.Tags = tags
	tx.Note = fmt.Sprintf("%s:%d:%d", id, rep.Idx, acc.Idx)
	return g.note(tx)
}

func (g *Gen) AllegationVote() txgen.Tx {
	w := g.W
	voter := g.activeVal("voter")
	id := "req1"
	if len(w.Allegs) > 0 {
		// prefer recent requests
		i := len(w.Allegs) - 1 - rapid.IntRange(0, min(2, len(w.Allegs)-1)).Draw(g.T, "which")
		id = w.Allegs[i].ID
	}
	choice := int8(rapid.SampledFrom([]int{1, 1, 1, 2, 2}).Draw(g.T, "choice"))
	tags := []string{}
	if g.pct(g.Hostile, "choice-h") {
		choice = int8(rapid.SampledFrom([]int{0, 3, -1, 127, -128}).Draw(g.T, "choice-hv"))
		tags = append(tags, "enum-out")
	}
	signer := voter.Key
	if g.pct(g.Strange, "outsider") {
		_, u := g.user("o")
		signer = u
		tags = append(tags, "signer-other")
	}
	tx := txgen.AllegationVote(signer, id, voter.Key.Addr, choice, g.fee(), w.Memo())
	tx.Tags = tags
	return g.note(tx)
}

func (g *Gen) Release() txgen.Tx {
	w := g.W
	v := g.val("val")
	// prefer frozen ones
	for _, x := range w.G.U.Vals {
		if w.IsFrozen(x.Key.Addr) && rapid.Bool().Draw(g.T, "pickfrozen") {
			v = x
			break
		}
	}
	tx := txgen.Release(v.Key, v.Key.Addr, g.fee(), w.Memo())
	return g.note(tx)
}

// ---------------- domains ----------------

var domNames = []string{"alice.ol", "bob.ol", "carol.ol", "x.alice.ol", "y.alice.ol", "z.bob.ol", "dave.ol"}

// existingDom prefers a name that was created in this history (for operations on existing names).
func (g *Gen) existingDom(label string) string {
	w := g.W
	if len(w.Domains) > 0 && rapid.IntRange(0, 4).Draw(g.T, label+"-ex") != 0 {
		return w.Domains[rapid.IntRange(0, len(w.Domains)-1).Draw(g.T, label+"-exi")].Name
	}
	return g.domName(label)
}

// domOwner returns the account that currently owns name according to the committed state (nil if unknown).
func (g *Gen) domOwner(name string) *sim.User {
	// related parties act too: sometimes the recorded beneficiary plays the owner's part
	if b := g.W.DomainBeneficiary(name); b != nil && g.pct(15, "as-beneficiary") {
		return b
	}
	return g.W.DomainOwner(name)
}

func (g *Gen) domName(label string) string {
	if g.pct(g.Hostile, label+"-h") {
		return rapid.SampledFrom([]string{"", "nodot", "bad..ol", "alice.xyz", "a.b.c.d.ol", "ALICE.ol"}).Draw(g.T, label+"-hv")
	}
	return rapid.SampledFrom(domNames).Draw(g.T, label)
}

func (g *Gen) domUser(label string) *sim.User {
	return g.W.G.U.Users[rapid.IntRange(0, min(3, len(g.W.G.U.Users)-1)).Draw(g.T, label)]
}

func (g *Gen) onsPrice(label string) (*big.Int, string) {
	base, _ := new(big.Int).SetString(g.W.P.OnsBasePrice, 10)
	per, _ := new(big.Int).SetString(g.W.P.OnsPerBlock, 10)
	if g.pct(g.Hostile, label+"-h") {
		return g.amount(base, label+"-hv")
	}
	blocks := int64(rapid.IntRange(1, 40).Draw(g.T, label+"-blocks"))
	extra := int64(rapid.IntRange(0, 3).Draw(g.T, label+"-extra"))
	v := new(big.Int).Add(base, new(big.Int).Mul(per, big.NewInt(blocks)))
	v.Add(v, big.NewInt(extra))
	if rapid.IntRange(0, 9).Draw(g.T, label+"-under") == 0 {
		v.Sub(base, big.NewInt(1))
	}
	return v, "amt-ok"
}

func (g *Gen) DomainCreate() txgen.Tx {
	w := g.W
	u := g.domUser("u")
	name := g.domName("name")
	price, mtag := g.onsPrice("price")
	benef, atag := u.Addr, "addr-self"
	if g.pct(30, "benef") {
		benef, atag = g.someAddr("benef")
	}
	s, strange := g.signerFor(u, "signer")
	tx := txgen.DomainCreate(s, u.Addr, benef, name, "http://a.b/c", txgen.Amt("OLT", price), g.fee(), w.Memo())
	tx.Tags = []string{mtag, atag}
	for ui, x := range w.G.U.Users {
		if x == u {
			tx.Note = fmt.Sprintf("%s:%d", name, ui)
		}
	}
	if strange {
		g.tag(&tx, "signer-other")
	}
	return g.note(tx)
}

func (g *Gen) DomainUpdate() txgen.Tx {
	w := g.W
	name := g.existingDom("name")
	u := g.domUser("u")
	if o := g.domOwner(name); o != nil && !g.pct(g.Strange, "notowner") {
		u = o
	}
	benef, atag := g.someAddr("benef")
	s, strange := g.signerFor(u, "signer")
	tx := txgen.DomainUpdate(s, u.Addr, benef, name, rapid.Bool().Draw(g.T, "active"), rapid.SampledFrom([]string{"http://a.b", "ftp://x.y/z", "", "notauri"}).Draw(g.T, "uri"), g.fee(), w.Memo())
	tx.Tags = []string{atag}
	if strange {
		g.tag(&tx, "signer-other")
	}
	return g.note(tx)
}

func (g *Gen) DomainSale() txgen.Tx {
	w := g.W
	name := g.existingDom("name")
	u := g.domUser("u")
	if o := g.domOwner(name); o != nil && !g.pct(g.Strange, "notowner") {
		u = o
	}
	price, mtag := g.amount(oltWhole(50), "price")
	s, strange := g.signerFor(u, "signer")
	tx := txgen.DomainSale(s, u.Addr, name, txgen.Amt("OLT", price), rapid.IntRange(0, 4).Draw(g.T, "cancel") == 0, g.fee(), w.Memo())
	tx.Tags = []string{mtag}
	if strange {
		g.tag(&tx, "signer-other")
	}
	return g.note(tx)
}

func (g *Gen) DomainPurchase() txgen.Tx {
	w := g.W
	u := g.domUser("u")
	offer, mtag := g.amount(oltWhole(60), "offer")
	if rapid.IntRange(0, 3).Draw(g.T, "expiredbuy") == 0 {
		offer, mtag = g.onsPrice("price")
	}
	acct, atag := u.Addr, "addr-self"
	if g.pct(30, "acct") {
		acct, atag = g.someAddr("acct")
	}
	s, strange := g.signerFor(u, "signer")
	tx := txgen.DomainPurchase(s, u.Addr, acct, g.existingDom("name"), txgen.Amt("OLT", offer), g.fee(), w.Memo())
	tx.Tags = []string{mtag, atag}
	if strange {
		g.tag(&tx, "signer-other")
	}
	return g.note(tx)
}

func (g *Gen) DomainSend() txgen.Tx {
	w := g.W
	_, u := g.user("u")
	capv := new(big.Int).Div(w.Bal(u.Addr, "OLT"), big.NewInt(100))
	amt, mtag := g.amount(capv, "amt")
	cur, ctag := g.currency("OLT", "cur")
	s, strange := g.signerFor(u, "signer")
	tx := txgen.DomainSend(s, u.Addr, g.existingDom("name"), txgen.Amt(cur, amt), g.fee(), w.Memo())
	tx.Tags = []string{mtag, ctag}
	if strange {
		g.tag(&tx, "signer-other")
	}
	return g.note(tx)
}

func (g *Gen) DomainRenew() txgen.Tx {
	w := g.W
	name := g.existingDom("name")
	u := g.domUser("u")
	if o := g.domOwner(name); o != nil && !g.pct(g.Strange, "notowner") {
		u = o
	}
	per, _ := new(big.Int).SetString(w.P.OnsPerBlock, 10)
	v := new(big.Int).Mul(per, big.NewInt(int64(rapid.IntRange(0, 30).Draw(g.T, "blocks"))))
	v.Add(v, big.NewInt(int64(rapid.IntRange(0, 2).Draw(g.T, "extra"))))
	mtag := "amt-ok"
	if g.pct(g.Hostile, "price-h") {
		v, mtag = g.amount(per, "price-hv")
	}
	s, strange := g.signerFor(u, "signer")
	tx := txgen.DomainRenew(s, u.Addr, name, txgen.Amt("OLT", v), g.fee(), w.Memo())
	tx.Tags = []string{mtag}
	if strange {
		g.tag(&tx, "signer-other")
	}
	return g.note(tx)
}

func (g *Gen) DomainDeleteSub() txgen.Tx {
	w := g.W
	name := g.existingDom("name")
	u := g.domUser("u")
	if o := g.domOwner(name); o != nil && !g.pct(g.Strange, "notowner") {
		u = o
	}
	s, strange := g.signerFor(u, "signer")
	tx := txgen.DomainDeleteSub(s, u.Addr, name, g.fee(), w.Memo())
	if strange {
		g.tag(&tx, "signer-other")
	}
	return g.note(tx)
}

// ---------------- governance ----------------

func (g *Gen) pickProp(label string) *PropInfo {
	return g.pickPropWhere(label, nil)
}

// pickPropWhere prefers a recent proposal satisfying want (state read on the committed tree).
func (g *Gen) pickPropWhere(label string, want func(p *PropInfo) bool) *PropInfo {
	w := g.W
	if len(w.Props) == 0 {
		return &PropInfo{ID: txgen.ProposalID("none")}
	}
	if want != nil && !g.pct(g.Strange, label+"-anystage") {
		for i := len(w.Props) - 1; i >= 0 && i >= len(w.Props)-5; i-- {
			if want(w.Props[i]) {
				return w.Props[i]
			}
		}
	}
	i := len(w.Props) - 1 - g.Uniform(min(3, len(w.Props)), label)
	return w.Props[i]
}

// ConfigUpdates are option strings for config-update proposals (valid and invalid).
var ConfigUpdates = []string{
	// keys as registered in action/govUpdate.go; every update re-validates its whole option group, so from small
	// genesis values only the fee / ons ones (and, with main-net sized staking options, the staking ones) can pass
	"feeOption.minFeeDecimal:9", "feeOption.minFeeDecimal:8", "onsOptions.perBlockFees:100000000000001", "onsOptions.baseDomainPrice:1000000000000000000001",
	"stakingOptions.maturityTime:109300", "stakingOptions.topValidatorCount:8", "stakingOptions.minSelfDelegationAmount:600000",
	"evidenceOptions.blockVotesDiff:1100", "propOptions.general.passPercentage:60", "rewardOptions.rewardInterval:150",
	"bogus.key:1", "nocolon", "stakingOptions.topValidatorCount:1", "feeOption.minFeeDecimal:99",
	// proposal options of every type (a creation that names them may fail for many reasons; naming them must change nothing)
	"propOptions.general.passPercentage:67", "propOptions.configUpdate.passPercentage:80", "propOptions.general.initialFunding:2000000000",
	"propOptions.configUpdate.fundingGoal:20000000000", "propOptions.codeChange.passPercentage:70", "propOptions.general.fundingGoal:30000000000",
	// the smallest values (the validation of each group has to refuse them: prices are divisors, counts are bounds)
	"onsOptions.perBlockFees:0", "onsOptions.baseDomainPrice:0", "stakingOptions.topValidatorCount:0", "rewardOptions.rewardInterval:0",
	"evidenceOptions.blockVotesDiff:0", "feeOption.minFeeDecimal:-1",
	// amounts around and far outside the accepted range of their option (500 000 .. 10 000 000 for the minimum self delegation)
	"stakingOptions.minSelfDelegationAmount:60000000", "stakingOptions.minSelfDelegationAmount:15000000", "stakingOptions.minSelfDelegationAmount:10000000",
	"stakingOptions.minSelfDelegationAmount:100", "stakingOptions.minSelfDelegationAmount:499950", "stakingOptions.minSelfDelegationAmount:500000",
}

func (g *Gen) ProposalCreate() txgen.Tx {
	w := g.W
	ui, u := g.user("u")
	typ := rapid.SampledFrom([]governance.ProposalType{governance.ProposalTypeGeneral, governance.ProposalTypeGeneral, governance.ProposalTypeConfigUpdate, governance.ProposalTypeCodeChange}).Draw(g.T, "type")
	id := txgen.ProposalID(fmt.Sprintf("p%d-%d", len(w.Props)+1, w.memoN))
	h := w.C.Height + 1
	fundDL := h + 1 + int64(g.Uniform(int(w.P.PropFundingDL), "funddl"))
	voteDL := fundDL + w.P.PropVotingDL
	initial, _ := new(big.Int).SetString(w.P.PropInitialFunding, 10)
	goal, _ := new(big.Int).SetString(w.P.PropFundingGoal, 10)
	mtag := "amt-ok"
	if g.pct(g.Hostile, "init-h") {
		initial, mtag = g.amount(goal, "init-hv")
	}
	cfg := ""
	if typ == governance.ProposalTypeConfigUpdate {
		cfg = rapid.SampledFrom(ConfigUpdates).Draw(g.T, "cfg")
	}
	tags := []string{mtag}
	if g.forceCfg != "" {
		typ, cfg = governance.ProposalTypeConfigUpdate, g.forceCfg
		tags = append(tags, "names-proposal-option")
	} else if g.forceTyp != nil {
		typ = *g.forceTyp
	}
	if g.pct(g.Strange, "id-sep") {
		// ids are 64 characters chosen by the sender: the store's own key separator is a legal character
		b := []byte(id)
		b[7], b[23] = '_', '_'
		id = governance.ProposalID(b)
		tags = append(tags, "id-with-separator")
	}
	if len(w.Props) > 0 && g.pct(g.Strange, "reuse-id") {
		// ids are chosen by the sender: ask for one that exists already
		id = w.Props[g.Uniform(len(w.Props), "reuse-which")].ID
		tags = append(tags, "id-reused")
	}
	if g.pct(g.Strange, "wrongdl") {
		voteDL += int64(rapid.IntRange(-2, 2).Draw(g.T, "voteoff"))
		fundDL += int64(rapid.IntRange(-3, 0).Draw(g.T, "fundoff"))
		tags = append(tags, "deadline-off")
	}
	m := agov.CreateProposal{ProposalID: id, ProposalType: typ, Headline: "h", Description: "d", Proposer: u.Addr,
		InitialFunding: txgen.Amt("OLT", initial), FundingDeadline: fundDL, FundingGoal: balance.NewAmountFromBigInt(goal),
		VotingDeadline: voteDL, PassPercentage: w.P.PropPassPct, ConfigUpdate: cfg}
	s, strange := g.signerFor(u, "signer")
	tx := txgen.ProposalCreate(s, m, g.fee(), w.Memo())
	tx.Tags = tags
	if strange {
		g.tag(&tx, "signer-other")
	}
	tx.Note = fmt.Sprintf("%s:%d:%d:%d:%d", id, ui, fundDL, voteDL, int(typ))
	return g.note(tx)
}

// ProposalOptionsPair: a configuration proposal that names a proposal option of one proposal type (from small genesis
// values the group validation refuses every such update, and the creation may fail for other reasons as well), followed
// by the creation of a proposal of that type: the second one reads the options the first one only looked at.
func (g *Gen) ProposalOptionsPair() []txgen.Tx {
	types := []struct {
		name string
		typ  governance.ProposalType
	}{{"general", governance.ProposalTypeGeneral}, {"configUpdate", governance.ProposalTypeConfigUpdate}, {"codeChange", governance.ProposalTypeCodeChange}}
	t := types[g.Uniform(len(types), "optpair-type")]
	fields := []string{"passPercentage:60", "passPercentage:99", "initialFunding:2000000000", "fundingGoal:30000000000", "votingDeadline:150001", "fundingDeadline:75001", "passPercentage:0", "initialFunding:0"}
	g.forceCfg = "propOptions." + t.name + "." + fields[g.Uniform(len(fields), "optpair-field")]
	a := g.ProposalCreate()
	g.forceCfg, g.forceTyp = "", &t.typ
	b := g.ProposalCreate()
	g.forceTyp = nil
	return []txgen.Tx{a, b}
}

// ProposalCreateCfg draws a configuration-update proposal that names the given option string.
func (g *Gen) ProposalCreateCfg(cfg string) txgen.Tx {
	g.forceCfg = cfg
	tx := g.ProposalCreate()
	g.forceCfg = ""
	return tx
}

func (g *Gen) ProposalFund() txgen.Tx {
	w := g.W
	if len(w.Props) == 0 && !g.pct(g.Strange, "fund-none") {
		return g.ProposalCreate()
	}
	p := g.pickPropWhere("prop", func(p *PropInfo) bool { return w.PropFunding(p.ID) && p.FundDL > w.C.Height+1 })
	_, u := g.user("u")
	goal, _ := new(big.Int).SetString(w.P.PropFundingGoal, 10)
	var amt *big.Int
	mtag := "amt-ok"
	switch rapid.IntRange(0, 3).Draw(g.T, "shape") {
	case 0:
		amt = new(big.Int).Set(goal)
	case 1:
		amt = new(big.Int).Div(goal, big.NewInt(3))
	default:
		amt, mtag = g.amount(goal, "amt")
	}
	if mtag != "amt-ok" && (mtag == "amt-neg" || mtag == "amt-neg-huge" || mtag == "amt-neg-2^64") && g.excluded("PROPOSAL_FUND:amt-neg") {
		amt, mtag = big.NewInt(1), "amt-ok"
	}
	cur, ctag := g.currency("OLT", "cur")
	s, strange := g.signerFor(u, "signer")
	tx := txgen.ProposalFund(s, p.ID, u.Addr, txgen.Amt(cur, amt), g.fee(), w.Memo())
	tx.Tags = []string{mtag, ctag}
	if strange {
		g.tag(&tx, "signer-other")
	}
	return g.note(tx)
}

func (g *Gen) ProposalCancel() txgen.Tx {
	w := g.W
	p := g.pickPropWhere("prop", func(p *PropInfo) bool { return w.PropFunding(p.ID) })
	u := w.G.U.Users[p.Proposer%len(w.G.U.Users)]
	s, strange := g.signerFor(u, "signer")
	tx := txgen.ProposalCancel(s, p.ID, u.Addr, "because", g.fee(), w.Memo())
	if strange {
		g.tag(&tx, "signer-other")
	}
	return g.note(tx)
}

func (g *Gen) ProposalVote() txgen.Tx {
	w := g.W
	if len(w.Props) == 0 && !g.pct(g.Strange, "vote-none") {
		return g.ProposalCreate()
	}
	p := g.pickPropWhere("prop", func(p *PropInfo) bool { return w.PropVoting(p.ID) })
	if !w.PropVoting(p.ID) && w.PropFunding(p.ID) && !g.pct(g.Strange, "vote-early") {
		return g.ProposalFund()
	}
	v := g.activeVal("val")
	op := rapid.SampledFrom([]governance.VoteOpinion{governance.OPIN_POSITIVE, governance.OPIN_POSITIVE, governance.OPIN_POSITIVE, governance.OPIN_NEGATIVE, governance.OPIN_GIVEUP}).Draw(g.T, "op")
	tags := []string{}
	if g.pct(g.Hostile, "op-h") {
		op = governance.VoteOpinion(rapid.SampledFrom([]int{0, 4, -1, 255, 1 << 31}).Draw(g.T, "op-hv"))
		tags = append(tags, "enum-out")
	}
	signers := []*sim.User{v.Stake, v.Key}
	addr := v.Stake.Addr
	if g.pct(g.Strange, "sig") {
		_, o := g.user("o")
		switch rapid.IntRange(0, 2).Draw(g.T, "sigk") {
		case 0:
			signers = []*sim.User{o, v.Key}
			addr = o.Addr // any account may accompany the validator
		case 1:
			signers = []*sim.User{v.Stake}
			tags = append(tags, "signer-missing")
		default:
			signers = []*sim.User{v.Stake, o}
			tags = append(tags, "signer-other")
		}
	}
	tx := txgen.ProposalVote(p.ID, addr, v.Key.Addr, op, g.fee(), w.Memo(), signers...)
	tx.Tags = tags
	return g.note(tx)
}

// voteTx builds a correctly signed vote of validator v on proposal p.
func (g *Gen) voteTx(p *PropInfo, v *sim.Val, op int) txgen.Tx {
	w := g.W
	tx := txgen.ProposalVote(p.ID, v.Stake.Addr, v.Key.Addr, governance.VoteOpinion(op), g.fee(), w.Memo(), v.Stake, v.Key)
	tx.Tags = []string{"vote-burst"}
	return tx
}

func (g *Gen) ProposalWithdrawFunds() txgen.Tx {
	w := g.W
	p := g.pickProp("prop")
	_, u := g.user("u")
	if len(p.Funders) > 0 && rapid.IntRange(0, 3).Draw(g.T, "funder") != 0 {
		u = w.G.U.Users[p.Funders[rapid.IntRange(0, len(p.Funders)-1).Draw(g.T, "fi")]%len(w.G.U.Users)]
	}
	goal, _ := new(big.Int).SetString(w.P.PropFundingGoal, 10)
	amt, mtag := g.amount(goal, "amt")
	benef, atag := u.Addr, "addr-self"
	if g.pct(30, "benef") {
		benef, atag = g.someAddr("benef")
	}
	cur, ctag := g.currency("OLT", "cur")
	s, strange := g.signerFor(u, "signer")
	tx := txgen.ProposalWithdrawFunds(s, p.ID, u.Addr, benef, txgen.Amt(cur, amt), g.fee(), w.Memo())
	tx.Tags = []string{mtag, atag, ctag}
	if strange {
		g.tag(&tx, "signer-other")
	}
	return g.note(tx)
}

func (g *Gen) ProposalFinalize() txgen.Tx {
	w := g.W
	p := g.pickProp("prop")
	_, u := g.user("u")
	valAddr := u.Addr
	if rapid.Bool().Draw(g.T, "asval") {
		v := g.activeVal("val")
		u, valAddr = v.Key, v.Key.Addr
	}
	tx := txgen.ProposalFinalize(u, p.ID, valAddr, g.fee(), w.Memo())
	tx.Tags = []string{"public-router"}
	return g.note(tx)
}

func (g *Gen) ExpireVotes() txgen.Tx {
	w := g.W
	p := g.pickProp("prop")
	_, u := g.user("u")
	valAddr := u.Addr
	if rapid.Bool().Draw(g.T, "asval") {
		v := g.activeVal("val")
		u, valAddr = v.Key, v.Key.Addr
	}
	tx := txgen.ExpireVotes(u, p.ID, valAddr, g.fee(), w.Memo())
	tx.Tags = []string{"public-router"}
	return g.note(tx)
}

// ---------------- ethereum ----------------

func (g *Gen) ethUser(label string) *sim.EthUser {
	u := g.W.G.U.Eth
	return u[rapid.IntRange(0, len(u)-1).Draw(g.T, label)]
}

func (g *Gen) EthLock() txgen.Tx {
	w := g.W
	ui, u := g.user("u")
	e := g.ethUser("e")
	val := big.NewInt(int64(rapid.IntRange(1, 1000000).Draw(g.T, "value")))
	tags := []string{}
	to := &sim.LockRedeemContract
	if g.pct(g.Hostile, "eth-h") {
		switch rapid.IntRange(0, 2).Draw(g.T, "eth-hk") {
		case 0:
			x := ethcmn.HexToAddress("0x99")
			to = &x
			tags = append(tags, "eth-wrong-contract")
		case 1:
			val, _ = new(big.Int).SetString("3000000000000000000", 10)
			tags = append(tags, "eth-over-supply")
		default:
			val = big.NewInt(0)
			tags = append(tags, "amt-zero")
		}
	}
	n := w.EthNonce[e.Name]
	w.EthNonce[e.Name]++
	raw := txgen.EthLockRaw(e, n, to, val)
	// duplicates: resubmit an existing lock sometimes
	if len(w.Tracks) > 0 && g.pct(g.Strange, "dup") {
		t := w.Tracks[rapid.IntRange(0, len(w.Tracks)-1).Draw(g.T, "dupi")]
		raw = t.Raw
		tags = append(tags, "dup-eth-tx")
	}
	s, strange := g.signerFor(u, "signer")
	tx := txgen.EthLock(s, u.Addr, raw, g.fee(), w.Memo())
	tx.Tags = tags
	if strange {
		g.tag(&tx, "signer-other")
	}
	tx.Note = fmt.Sprintf("lock:%d:%s", ui, val.String())
	return g.note(tx)
}

// selectorAddress returns an address that keeps the head of base and ends in the 4-byte method selector of the
// call data of the raw ethereum transaction.
func selectorAddress(raw []byte, base ethcmn.Address) (ethcmn.Address, bool) {
	tx := new(ethtypes.Transaction)
	if err := rlp.DecodeBytes(raw, tx); err != nil || len(tx.Data()) < 4 {
		return base, false
	}
	to := base
	copy(to[16:], tx.Data()[:4])
	return to, true
}

func (g *Gen) EthRedeem() txgen.Tx {
	w := g.W
	ui, u := g.user("u")
	e := g.ethUser("e")
	bal := w.Bal(u.Addr, "ETH")
	amt, mtag := g.amount(bal, "amt")
	n := w.EthNonce[e.Name]
	w.EthNonce[e.Name]++
	raw := txgen.EthRedeemRaw(e, n, &sim.LockRedeemContract, amt)
	selTag := ""
	if g.pct(g.Strange, "sel-in-to") {
		// the method selector once more, earlier in the raw bytes: as the tail of the receiving address
		if to, ok := selectorAddress(raw, sim.LockRedeemContract); ok {
			raw = txgen.EthRedeemRaw(e, n, &to, amt)
			selTag = "eth-selector-in-to-address"
		}
	}
	s, strange := g.signerFor(u, "signer")
	tx := txgen.EthRedeem(s, u.Addr, e.Addr, raw, g.fee(), w.Memo())
	tx.Tags = []string{mtag}
	if selTag != "" {
		tx.Tags = append(tx.Tags, selTag)
	}
	if strange {
		g.tag(&tx, "signer-other")
	}
	tx.Note = fmt.Sprintf("redeem:%d:%s", ui, amt.String())
	return g.note(tx)
}

func (g *Gen) ERC20Lock() txgen.Tx {
	w := g.W
	ui, u := g.user("u")
	e := g.ethUser("e")
	amt := big.NewInt(int64(rapid.IntRange(1, 1000000).Draw(g.T, "value")))
	n := w.EthNonce[e.Name]
	w.EthNonce[e.Name]++
	raw := txgen.ERC20LockRaw(e, n, &sim.TestTokenContract, sim.ERCLockContract, amt)
	s, strange := g.signerFor(u, "signer")
	tx := txgen.ERC20Lock(s, u.Addr, raw, g.fee(), w.Memo())
	if strange {
		g.tag(&tx, "signer-other")
	}
	tx.Note = fmt.Sprintf("erclock:%d:%s", ui, amt.String())
	return g.note(tx)
}

func (g *Gen) ERC20Redeem() txgen.Tx {
	w := g.W
	ui, u := g.user("u")
	e := g.ethUser("e")
	bal := w.Bal(u.Addr, "TTC")
	amt, mtag := g.amount(bal, "amt")
	n := w.EthNonce[e.Name]
	w.EthNonce[e.Name]++
	raw := txgen.ERC20RedeemRaw(e, n, &sim.ERCLockContract, sim.TestTokenContract, amt)
	selTag := ""
	if g.pct(g.Strange, "sel-in-to") {
		if to, ok := selectorAddress(raw, sim.ERCLockContract); ok {
			raw = txgen.ERC20RedeemRaw(e, n, &to, sim.TestTokenContract, amt)
			selTag = "eth-selector-in-to-address"
		}
	}
	s, strange := g.signerFor(u, "signer")
	tx := txgen.ERC20Redeem(s, u.Addr, e.Addr, raw, g.fee(), w.Memo())
	tx.Tags = []string{mtag}
	if selTag != "" {
		tx.Tags = append(tx.Tags, selTag)
	}
	if strange {
		g.tag(&tx, "signer-other")
	}
	tx.Note = fmt.Sprintf("ercredeem:%d:%s", ui, amt.String())
	return g.note(tx)
}

func (g *Gen) ReportFinality() txgen.Tx {
	w := g.W
	var name ethcmn.Hash
	locker := keys.Address{}
	if len(w.Tracks) > 0 {
		t := w.Tracks[len(w.Tracks)-1-rapid.IntRange(0, min(2, len(w.Tracks)-1)).Draw(g.T, "track")]
		name = t.Name
		locker = w.G.U.Users[t.Owner%len(w.G.U.Users)].Addr
	}
	v := g.val("val")
	idx := int64(-1)
	// the witness list is the set of witness addresses sorted by key iteration; find v's index
	wl := w.WitnessList()
	for i, a := range wl {
		if a.Equal(v.Key.Addr) {
			idx = int64(i)
		}
	}
	tags := []string{}
	if idx < 0 {
		idx = int64(rapid.IntRange(0, 3).Draw(g.T, "idx"))
		tags = append(tags, "non-witness")
	}
	if g.pct(g.Hostile, "idx-h") {
		idx = rapid.SampledFrom([]int64{-1, int64(len(wl)), 1 << 31, 1<<63 - 1}).Draw(g.T, "idx-hv")
		tags = append(tags, "idx-out")
		if idx < 0 && g.excluded("ETH_REPORT_FINALITY_MINT:idx-neg") {
			idx = 0
		}
	}
	if g.pct(g.Strange, "liar") {
		_, o := g.user("liar-o")
		locker = o.Addr
		tags = append(tags, "locker-other")
	}
	success := rapid.IntRange(0, 4).Draw(g.T, "success") != 0
	tx := txgen.ReportFinality(v.Key, name, locker, v.Key.Addr, idx, success, g.fee(), w.Memo())
	tx.Tags = tags
	return g.note(tx)
}

// ---------------- OLVM ----------------

// small contracts: runtime code and the matching init code
var (
	// runtime: SSTORE(0, CALLDATALOAD(0)); STOP
	rtStore = ethcmn.FromHex("0x60003560005500")
	// runtime: REVERT(0,0)
	rtRevert = ethcmn.FromHex("0x60006000fd")
	// runtime: infinite loop (out of gas)
	rtLoop = ethcmn.FromHex("0x5b600056")
	// runtime: SELFDESTRUCT(caller)
	rtKill = ethcmn.FromHex("0x33ff")
	// runtime: LOG1(0,0,topic=1); SSTORE(1, ADD(SLOAD(1),1))
	rtLog = ethcmn.FromHex("0x600160006000a1600160015401600155")
	// runtime of a "fund, then deploy" factory: CALL(gas, to = CALLDATALOAD(0), value = CALLVALUE); then
	// CREATE2(value 0, init code = one STOP byte, salt 0) — called with its own CREATE2 child address it funds the
	// address first and deploys a contract there afterwards, in one transaction
	rtFactory = ethcmn.FromHex("0x6000600060006000346000355af150" + "6000600160006000f550" + "00")
	// runtime that writes its execution environment into storage, one slot each: GASLIMIT, NUMBER, TIMESTAMP, COINBASE,
	// DIFFICULTY, GASPRICE, ORIGIN, GAS, BLOCKHASH(NUMBER-1) — whatever the node feeds the VM becomes part of the state
	// runtime of a "fund, then fail to deploy" factory: CALL(to = CALLDATALOAD(0), value = CALLVALUE/2), then
	// CREATE2(value = the contract's whole balance, init code = REVERT(0,0), salt 0): called with its own CREATE2 child
	// address it funds the address and then runs a value-carrying creation there whose constructor reverts
	rtFactoryRv = ethcmn.FromHex("0x60006000600060003460011c6000355af150" + "6460006000fd600052" + "60006005601b47f550" + "00")
	// runtime that calls itself once: the inner frame (CALLER == ADDRESS) sends 1 wei to the fresh address in calldata
	// word 2 (creating that account), reads the balances of the accounts in words 0 and 1 (first touch of both) and
	// reverts; the outer frame then pays the whole call value to the account in word 0. The revert has to undo an
	// account creation that happened BEFORE two other accounts were loaded.
	rtNest = ethcmn.FromHex("0x333014602b57" + "60606000600037" + "60006000606060006000305af150" + "600060006000600034600035" + "5af15000" +
		"5b" + "6000600060006000600160403" + "55af150" + "6000353150" + "6020353150" + "60006000fd")
	// the same without GASLIMIT (slot 0 receives NUMBER instead)
	rtEnvNoGasLimit = ethcmn.FromHex("0x43600055" + "43600155" + "42600255" + "41600355" + "44600455" + "3a600555" + "32600655" + "5a600755" + "6001430340600855" + "00")
	rtEnv           = ethcmn.FromHex("0x45600055" + "43600155" + "42600255" + "41600355" + "44600455" + "3a600555" + "32600655" + "5a600755" + "6001430340600855" + "00")
)

// RtFactory is exported for the checks that classify recipients by code.
var RtFactory = rtFactory

// RtFactoryRv is the factory whose value-carrying CREATE2 over a just-funded address reverts.
var RtFactoryRv = rtFactoryRv

// FactoryRvChild is the address at which rtFactoryRv attempts its creation.
func FactoryRvChild(factory ethcmn.Address) ethcmn.Address {
	return ethcrypto.CreateAddress2(factory, [32]byte{}, ethcrypto.Keccak256(ethcmn.FromHex("0x60006000fd")))
}

// RtNest is the self-calling contract whose inner frame creates an account, touches two others and reverts.
var RtNest = rtNest

// NestFresh is a deterministic address nobody uses, for the inner frame's account creation.
func NestFresh(label string) []byte { return ethcrypto.Keccak256([]byte("nest-fresh-" + label))[12:] }

// FactoryChild is the address at which a factory (rtFactory) deploys its child.
func FactoryChild(factory ethcmn.Address) ethcmn.Address {
	return ethcrypto.CreateAddress2(factory, [32]byte{}, ethcrypto.Keccak256([]byte{0x00}))
}

func initCode(rt []byte) []byte {
	// PUSH1 len, PUSH1 0x0c, PUSH1 0, CODECOPY, PUSH1 len, PUSH1 0, RETURN
	n := byte(len(rt))
	c := []byte{0x60, n, 0x60, 0x0c, 0x60, 0x00, 0x39, 0x60, n, 0x60, 0x00, 0xf3}
	return append(c, rt...)
}

func (g *Gen) OLVM() txgen.Tx {
	w := g.W
	e := g.ethUser("e")
	nonce := w.OlvmNext[e.Name]
	tags := []string{}
	switch rapid.IntRange(0, 9).Draw(g.T, "noncek") {
	case 0:
		if nonce > 0 {
			nonce--
			tags = append(tags, "nonce-low")
		}
	case 1:
		if !g.excluded("OLVM:nonce-gap") {
			nonce += uint64(rapid.IntRange(1, 3).Draw(g.T, "gap"))
			tags = append(tags, "nonce-gap")
		}
	}
	a := txgen.OLVMArgs{ChainID: w.P.ChainID, Nonce: nonce, Fee: txgen.Fee{Price: big.NewInt(1000000000), Cur: "OLT", Gas: 300000}}
	factoryNote := ""
	switch rapid.IntRange(0, 6).Draw(g.T, "shape") {
	case 0, 1: // plain transfer
		to, _ := g.someAddr("to")
		if len(to) != 20 {
			to = w.G.U.Users[0].Addr
		}
		// half of the transfers stay among the accounts that also send EVM transactions
		if len(w.G.U.Eth) > 1 && g.Uniform(2, "to-eth") == 0 {
			to = w.G.U.Eth[g.Uniform(len(w.G.U.Eth), "to-eth-which")].OLAddr()
		}
		t := ethcmn.BytesToAddress(to)
		a.To = &t
		a.Value = big.NewInt(int64(rapid.IntRange(0, 1000000).Draw(g.T, "value")))
		a.Fee.Gas = int64(rapid.SampledFrom([]int{21000, 21000, 50000, 20999}).Draw(g.T, "gas"))
		tags = append(tags, "olvm-transfer")
	case 2: // create
		rt := rapid.SampledFrom([][]byte{rtStore, rtRevert, rtLoop, rtKill, rtLog, rtFactory, rtEnv, rtEnv, rtNest, rtFactoryRv}).Draw(g.T, "rt")
		if g.NoBlockGasObserver && bytes.Equal(rt, rtEnv) {
			rt = rtEnvNoGasLimit
		}
		a.Data = initCode(rt)
		if len(rt) == len(rtFactory) {
			factoryNote = ":factory"
		}
		if bytes.Equal(rt, rtNest) {
			factoryNote = ":nest"
		}
		if bytes.Equal(rt, rtFactoryRv) {
			factoryNote = ":factoryrv"
		}
		a.Value = big.NewInt(int64(rapid.IntRange(0, 1000).Draw(g.T, "value")))
		a.Fee.Gas = int64(rapid.SampledFrom([]int{300000, 100000, 60000, 53000}).Draw(g.T, "gas"))
		tags = append(tags, "olvm-create")
	default: // call
		if len(w.Contract) == 0 {
			a.Data = initCode(rtStore)
			tags = append(tags, "olvm-create")
		} else {
			c := w.Contract[rapid.IntRange(0, len(w.Contract)-1).Draw(g.T, "contract")]
			if len(w.Factories) > 0 && g.Uniform(3, "call-factory") == 0 {
				c = w.Factories[g.Uniform(len(w.Factories), "factory")]
			}
			if len(w.FactoriesRv) > 0 && g.Uniform(4, "call-factoryrv") == 0 {
				c = w.FactoriesRv[g.Uniform(len(w.FactoriesRv), "factoryrv")]
			}
			nest := false
			if len(w.Nests) > 0 && g.Uniform(3, "call-nest") == 0 {
				c = w.Nests[g.Uniform(len(w.Nests), "nest")]
				nest = true
			}
			a.To = &c
			arg := make([]byte, 32)
			arg[31] = byte(rapid.SampledFrom([]int{0, 0, 1, 7, 9}).Draw(g.T, "arg"))
			a.Data = arg
			a.Value = big.NewInt(int64(rapid.SampledFrom([]int{0, 0, 5}).Draw(g.T, "value")))
			for _, f := range w.Factories {
				if f == c {
					// fund the child address and deploy there (the second call finds the child deployed already)
					a.Data = ethcmn.LeftPadBytes(FactoryChild(c).Bytes(), 32)
					a.Value = big.NewInt(int64(rapid.SampledFrom([]int{5, 1000, 0, 5000000}).Draw(g.T, "fvalue")))
					tags = append(tags, "olvm-call-factory")
				}
			}
			a.Fee.Gas = int64(rapid.SampledFrom([]int{300000, 100000, 30000, 22000}).Draw(g.T, "gas"))
			for _, f := range w.FactoriesRv {
				if f == c && !nest {
					a.Data = ethcmn.LeftPadBytes(FactoryRvChild(c).Bytes(), 32)
					a.Value = big.NewInt(int64(rapid.SampledFrom([]int{6, 1000, 5000000, 1}).Draw(g.T, "frvalue")))
					a.Fee.Gas = int64(rapid.SampledFrom([]int{300000, 300000, 100000}).Draw(g.T, "frgas"))
					tags = append(tags, "olvm-call-factoryrv")
				}
			}
			if nest {
				// two existing accounts (EVM senders or native users) and an address nobody has used
				pick := func(label string) []byte {
					if len(w.G.U.Eth) > 0 && g.Uniform(2, label) == 0 {
						return w.G.U.Eth[g.Uniform(len(w.G.U.Eth), label+"w")].OLAddr()
					}
					return w.G.U.Users[g.Uniform(len(w.G.U.Users), label+"u")].Addr
				}
				fresh := ethcrypto.Keccak256([]byte(fmt.Sprintf("nest-fresh-%s-%d", e.Name, nonce)))[12:]
				a.Data = append(append(ethcmn.LeftPadBytes(pick("nest-a"), 32), ethcmn.LeftPadBytes(pick("nest-b"), 32)...), ethcmn.LeftPadBytes(fresh, 32)...)
				a.Value = big.NewInt(int64(rapid.SampledFrom([]int{1000, 1, 77777, 0}).Draw(g.T, "nvalue")))
				a.Fee.Gas = int64(rapid.SampledFrom([]int{300000, 300000, 100000, 60000}).Draw(g.T, "ngas"))
				tags = append(tags, "olvm-call-nest")
			}
			tags = append(tags, "olvm-call")
		}
	}
	// an access list in the payload raises the intrinsic gas the VM demands (the mempool check computes it
	// without the list): gas limits between the two values fail after the gas was bought
	if g.pct(20, "access") {
		al := ethtypes.AccessList{{Address: ethcmn.BytesToAddress([]byte{0xaa}), StorageKeys: []ethcmn.Hash{{1}}}}
		extra := int64(2400 + 1900)
		if g.Uniform(2, "access2") == 0 {
			al = append(al, ethtypes.AccessTuple{Address: ethcmn.BytesToAddress([]byte{0xbb})})
			extra += 2400
		}
		a.Access = &al
		if base, err := vm.IntrinsicGas(a.Data, nil, a.To == nil); err == nil {
			a.Fee.Gas = int64(base) + []int64{0, 0, extra - 1, extra, extra + 30000, 2400}[g.Uniform(6, "accessgas")]
		}
		tags = append(tags, "olvm-access-list")
	}
	if g.pct(g.Strange, "chain") {
		a.SignChain = big.NewInt(1)
		tags = append(tags, "olvm-wrong-chain")
	}
	if g.pct(g.Strange, "memo") {
		m := "x"
		a.Memo = &m
		tags = append(tags, "olvm-bad-memo")
	}
	tx := txgen.OLVM(e, a)
	tx.Tags = tags
	tx.Note = fmt.Sprintf("olvm:%s:%d%s", e.Name, nonce, factoryNote)
	return g.note(tx)
}

func min(a, b int) int {
	if a < b {
		return a
	}
	return b
}
