package hist

import (
	"fmt"
	"math/big"

	ethcmn "github.com/ethereum/go-ethereum/common"
	ethcrypto "github.com/ethereum/go-ethereum/crypto"

	agov "github.com/Oneledger/protocol/action/governance"
	"github.com/Oneledger/protocol/data/balance"
	"github.com/Oneledger/protocol/data/governance"

	"verif/sim"
	"verif/txgen"
)

// A "state farm" is a World warmed up by a scripted prefix of blocks after which a
// well-formed transaction of EVERY kind txgen can build is applicable and would succeed
// (in CheckTx and in DeliverTx of the next block). C04 (authenticity) and C05 (replay)
// use it as the common starting state. Everything is deterministic in (Params, FarmOpts).

// FarmKinds lists the kinds Farm.Make can build, in a fixed order.
// EXPIRE_VOTES comes first: a user's expiry only succeeds in the one block right after the
// voting deadline (the application expires the proposal by itself at the end of that block),
// and the prefix ends exactly at that deadline; PROPOSAL_FINALIZE and PROPOSAL_VOTE follow
// for the same kind of reason (self-finalisation one block after passing, voting deadline).
var FarmKinds = []string{
	"EXPIRE_VOTES", "PROPOSAL_FINALIZE", "PROPOSAL_VOTE",
	"SEND", "SENDPOOL",
	"STAKE", "UNSTAKE", "WITHDRAW", "WITHDRAW_REWARD",
	"ADD_NETWORK_DELEGATE", "NETWORK_UNDELEGATE", "REWARDS_WITHDRAW_NETWORK_DELEGATE", "REWARDS_REINVEST_NETWORK_DELEGATE",
	"ALLEGATION", "ALLEGATION_VOTE", "RELEASE",
	"DOMAIN_CREATE", "DOMAIN_UPDATE", "DOMAIN_SELL", "DOMAIN_PURCHASE", "DOMAIN_SEND", "DOMAIN_RENEW", "DOMAIN_DELETE_SUB",
	"PROPOSAL_CREATE", "PROPOSAL_FUND", "PROPOSAL_CANCEL", "PROPOSAL_WITHDRAW_FUNDS",
	"ETH_LOCK", "ETH_REDEEM", "ERC20_LOCK", "ERC20_REDEEM", "ETH_REPORT_FINALITY_MINT",
	"OLVM",
	// the bid application: one conversation per kind is left open by the prefix (see FarmBidAssets)
	"BID_CREATE", "BID_CONTER_OFFER", "BID_CANCEL", "BID_BIDDER_DECISION", "BID_OWNER_DECISION", "BID_EXPIRE",
}

// FarmBidAssets maps each bid kind that needs an open conversation to the domain (owned by A, bidder B) the
// prefix opens it on: one conversation per kind, so that really executing one subject leaves the others
// applicable. All carry an active bid offer of B except BID_BIDDER_DECISION's, which carries A's counter offer.
var FarmBidAssets = map[string]string{
	"BID_CONTER_OFFER": "bidco.ol", "BID_CANCEL": "bidcancel.ol", "BID_BIDDER_DECISION": "bidbd.ol",
	"BID_OWNER_DECISION": "bidod.ol", "BID_EXPIRE": "bidexp.ol",
}

var farmBidOrder = []string{"BID_CONTER_OFFER", "BID_CANCEL", "BID_BIDDER_DECISION", "BID_OWNER_DECISION", "BID_EXPIRE"}

// FarmOpts are the (replayable) choices of a farm: which accounts play which role.
type FarmOpts struct {
	A   int `json:"a"`   // main actor (user index)
	B   int `json:"b"`   // counterparty (user index, != A)
	Eth int `json:"eth"` // ethereum key index (OLVM sender, embedded eth txs)
	Var int `json:"var"` // perturbs amounts / memos of the subject transactions
	// Fork: where the genesis puts the fork (EVM switch, forced staking options): 0 = block 1 (the farm's default),
	// 1 = height 1000 (never reached), 2 = disabled; without the fork there is no EVM: no contracts, no OLVM subject
	Fork int `json:"fork,omitempty"`
	// Restart: the subject node is stopped and started again on its data directory after the prefix (honoured by the
	// checks that throw inputs at a warmed-up node: what the application keeps only in memory is gone)
	Restart bool `json:"restart,omitempty"`
}

// FarmParams is the genesis configuration the farm script is written for.
func FarmParams(seed string) sim.Params {
	p := sim.DefaultParams()
	p.Seed = seed
	p.ValPower = []int64{3000000, 3000001, 3000002, 3000003, 3000004}
	p.ExtraVals = 2
	p.Witnesses = []int{0, 1, 2, 3, 4}
	p.Frankenstein = 1
	p.Maturity = 3
	p.Evidence.BlockVotesDiff = 1000 // keep the missed-votes logic out of the way
	p.Evidence.MinVotesRequired = 1
	p.Evidence.ValidatorReleaseTime = 0
	p.PropFundingDL = 40
	p.PropVotingDL = 6 // a proposal funded in block 3 is in voting until the last prefix block (9)
	p.RewardPoolFund = "1000000000000000000000000"
	p.PreEthBalances = nil
	return p
}

// Farm is a warmed-up world.
type Farm struct {
	W *World
	O FarmOpts

	A, B *sim.User
	E    *sim.EthUser

	Contract   map[string]ethcmn.Address        // store, revert, loop: contracts deployed in the prefix
	P          map[string]governance.ProposalID // fund, cancel, vote, withdraw, finalize
	LockRaw    []byte                           // ongoing ETH lock tracker (report-finality subject)
	Bid        map[string]string                // bid kind -> id of the conversation the prefix left open for it
	BidDL      int64                            // deadline of the prefix's conversations (unix seconds, far away)
	Log        []string                         // prefix execution log: "h=.. KIND code log"
	PrefixFail []string                         // prefix transactions that did not succeed
	n          int
}

func olt(n int64) *big.Int { return new(big.Int).Mul(big.NewInt(n), e18) }

// PrepareFarmParams adds the pre-funded wrapped balances the farm needs (redeem subjects).
func PrepareFarmParams(p sim.Params, o FarmOpts) sim.Params {
	p.PreEthBalances = []sim.PreBal{
		{User: o.A, Cur: "ETH", Amount: "500000"},
		{User: o.A, Cur: "TTC", Amount: "700000"},
	}
	switch o.Fork {
	case 1:
		p.Frankenstein = 1000
	case 2:
		p.Frankenstein = 0
	}
	if o.Fork != 0 {
		// the staking options the fork block would have forced (the farm script is written for them)
		p.MinSelfDeleg, p.TopCount = 500000, 64
	}
	return p
}

// BuildFarm runs the scripted prefix on every replica of w (w must be freshly initialised).
func BuildFarm(w *World, o FarmOpts) *Farm {
	u := w.G.U
	f := &Farm{W: w, O: o, P: map[string]governance.ProposalID{}, Bid: map[string]string{}}
	f.A = u.Users[o.A%len(u.Users)]
	f.B = u.Users[o.B%len(u.Users)]
	if f.B == f.A {
		f.B = u.Users[(o.A+1)%len(u.Users)]
	}
	f.E = u.Eth[o.Eth%len(u.Eth)]
	fee := w.Fee
	A, B := f.A, f.B
	v := u.Vals
	p := w.P

	run := func(txs ...txgen.Tx) {
		spec := sim.BlockSpec{GapSecs: 5}
		for _, tx := range txs {
			spec.Txs = append(spec.Txs, tx.Bytes)
		}
		b, res := w.RunBlock(spec)
		for i, tr := range res[0].Txs {
			line := fmt.Sprintf("h=%d %s code=%d %.140s", b.Height, txs[i].Kind, tr.Code, tr.Log)
			f.Log = append(f.Log, line)
			if tr.Code != 0 {
				f.PrefixFail = append(f.PrefixFail, line)
			}
		}
		w.Observe(txs, res[0])
	}
	memo := func() string { return w.Memo() }
	goal, _ := new(big.Int).SetString(p.PropFundingGoal, 10)
	initial, _ := new(big.Int).SetString(p.PropInitialFunding, 10)
	mkProp := func(tag string) txgen.Tx {
		id := txgen.ProposalID("farm-" + tag + "-" + p.Seed)
		f.P[tag] = id
		h := w.C.Height + 1
		return txgen.ProposalCreate(A, agov.CreateProposal{ProposalID: id, ProposalType: governance.ProposalTypeGeneral, Headline: "h", Description: "d-" + tag,
			Proposer: A.Addr, InitialFunding: txgen.Amt("OLT", initial), FundingDeadline: h + p.PropFundingDL, FundingGoal: balance.NewAmountFromBigInt(goal),
			VotingDeadline: h + p.PropFundingDL + p.PropVotingDL, PassPercentage: p.PropPassPct}, fee, memo())
	}

	run() // block 1: fork switch (EVM on, staking options forced)
	f.LockRaw = txgen.EthLockRaw(f.E, f.ethNonce(), &sim.LockRedeemContract, big.NewInt(1000000))
	// three contracts: runtime SSTORE(0, calldata) / REVERT / endless loop. They are deployed by
	// ANOTHER ethereum key, so that E's own nonce still starts at 0 after the prefix (materialised
	// replay files of OLVM subjects stay valid)
	dep := u.Eth[(o.Eth+1)%len(u.Eth)]
	f.Contract = map[string]ethcmn.Address{}
	var deploys []txgen.Tx
	for i, c := range []struct {
		name string
		rt   []byte
	}{{"store", rtStore}, {"revert", rtRevert}, {"loop", rtLoop}} {
		d := txgen.OLVM(dep, txgen.OLVMArgs{ChainID: p.ChainID, Nonce: uint64(i), Data: initCode(c.rt),
			Fee: txgen.Fee{Price: big.NewInt(1000000000), Cur: "OLT", Gas: 300000}})
		d.Note = fmt.Sprintf("olvm:%s:%d", dep.Name, i)
		deploys = append(deploys, d)
		f.Contract[c.name] = ethcrypto.CreateAddress(dep.Addr, uint64(i))
	}
	if o.Fork != 0 {
		deploys = nil // no EVM without the fork
	}
	run(deploys...)
	run(
		txgen.Delegate(A, A.Addr, txgen.Amt("OLT", olt(100)), fee, memo()),
		// one domain per domain kind, so that really executing one subject leaves the others applicable
		txgen.DomainCreate(A, A.Addr, A.Addr, "alice.ol", "http://a.b", txgen.Amt("OLT", olt(1001)), fee, memo()), // parent of sub.alice.ol
		txgen.DomainCreate(A, A.Addr, A.Addr, "shop.ol", "http://s.h", txgen.Amt("OLT", olt(1001)), fee, memo()),  // put on sale (purchase)
		txgen.DomainCreate(A, A.Addr, A.Addr, "upd.ol", "http://u.p", txgen.Amt("OLT", olt(1001)), fee, memo()),
		txgen.DomainCreate(A, A.Addr, A.Addr, "sell.ol", "http://s.e", txgen.Amt("OLT", olt(1001)), fee, memo()),
		txgen.DomainCreate(A, A.Addr, A.Addr, "send.ol", "http://s.n", txgen.Amt("OLT", olt(1001)), fee, memo()),
		txgen.DomainCreate(A, A.Addr, A.Addr, "renew.ol", "http://r.n", txgen.Amt("OLT", olt(1001)), fee, memo()),
		txgen.Unstake(v[0].Key.Addr, v[0].Stake.Addr, txgen.Amt("OLT", big.NewInt(10)), fee, memo(), v[0].Stake, v[0].Key),
		mkProp("fund"), mkProp("cancel"), mkProp("vote"), mkProp("withdraw"), mkProp("finalize"), mkProp("expire"),
		txgen.EthLock(A, A.Addr, f.LockRaw, fee, memo()),
		// one domain per bid kind that needs an open conversation
		txgen.DomainCreate(A, A.Addr, A.Addr, FarmBidAssets["BID_CONTER_OFFER"], "http://b.c", txgen.Amt("OLT", olt(1001)), fee, memo()),
		txgen.DomainCreate(A, A.Addr, A.Addr, FarmBidAssets["BID_CANCEL"], "http://b.x", txgen.Amt("OLT", olt(1001)), fee, memo()),
		txgen.DomainCreate(A, A.Addr, A.Addr, FarmBidAssets["BID_BIDDER_DECISION"], "http://b.b", txgen.Amt("OLT", olt(1001)), fee, memo()),
		txgen.DomainCreate(A, A.Addr, A.Addr, FarmBidAssets["BID_OWNER_DECISION"], "http://b.o", txgen.Amt("OLT", olt(1001)), fee, memo()),
		txgen.DomainCreate(A, A.Addr, A.Addr, FarmBidAssets["BID_EXPIRE"], "http://b.e", txgen.Amt("OLT", olt(1001)), fee, memo()),
	)
	// B opens a conversation on each of them (ids are derived by the application from owner, name, bidder and height)
	f.BidDL = w.C.Time.Unix() + 40000000
	var bids []txgen.Tx
	for i, k := range farmBidOrder {
		name := FarmBidAssets[k]
		f.Bid[k] = txgen.BidConvID(A.Addr, name, B.Addr, w.C.Height+1)
		bids = append(bids, txgen.BidCreate(B, "", A.Addr, name, txgen.BidAssetOns, B.Addr, txgen.Amt("OLT", olt(int64(10+i))), f.BidDL, fee, memo()))
	}
	run(
		txgen.Allegation(v[1].Key, "reqR", v[1].Key.Addr, v[4].Key.Addr, 1, "proof", fee, memo()),
		txgen.Allegation(v[1].Key, "reqV", v[1].Key.Addr, v[3].Key.Addr, 1, "proof", fee, memo()),
		txgen.DomainCreate(A, A.Addr, A.Addr, "sub.alice.ol", "http://a.b", txgen.Amt("OLT", olt(1001)), fee, memo()),
		txgen.DomainSale(A, A.Addr, "shop.ol", txgen.Amt("OLT", olt(10)), false, fee, memo()),
		txgen.ProposalFund(B, f.P["expire"], B.Addr, txgen.Amt("OLT", goal), fee, memo()), // voting deadline = 3 + 6
		txgen.ProposalCancel(A, f.P["withdraw"], A.Addr, "changed my mind", fee, memo()),
		txgen.Undelegate(A, A.Addr, txgen.Amt("OLT", olt(40)), fee, memo()),
		bids[0], bids[1], bids[2], bids[3], bids[4],
	)
	run(
		txgen.AllegationVote(v[0].Key, "reqR", v[0].Key.Addr, 1, fee, memo()),
		txgen.AllegationVote(v[2].Key, "reqR", v[2].Key.Addr, 1, fee, memo()),
		txgen.AllegationVote(v[3].Key, "reqR", v[3].Key.Addr, 1, fee, memo()),
		// A answers one of B's offers with a counter offer (the subject of BID_BIDDER_DECISION)
		txgen.BidCounterOffer(A, f.Bid["BID_BIDDER_DECISION"], A.Addr, txgen.Amt("OLT", olt(50)), fee, memo()),
	)
	run()
	run()
	run()
	run(
		txgen.ProposalFund(B, f.P["vote"], B.Addr, txgen.Amt("OLT", goal), fee, memo()),
		txgen.ProposalFund(B, f.P["finalize"], B.Addr, txgen.Amt("OLT", goal), fee, memo()),
	)
	// last prefix block (9): the votes that make the "finalize" proposal pass (the application
	// finalises a passed proposal by itself at the end of the following block)
	var votes []txgen.Tx
	for i := 0; i < 3; i++ {
		votes = append(votes, txgen.ProposalVote(f.P["finalize"], v[i].Stake.Addr, v[i].Key.Addr, governance.OPIN_POSITIVE, fee, memo(), v[i].Stake, v[i].Key))
	}
	run(votes...)
	return f
}

func (f *Farm) ethNonce() uint64 {
	n := f.W.EthNonce[f.E.Name]
	f.W.EthNonce[f.E.Name]++
	return n
}

// Make builds a well-formed, applicable transaction of the kind for the farm's current state.
// n distinguishes several transactions of one kind (different memo and amounts).
func (f *Farm) Make(kind string) (txgen.Tx, error) {
	w := f.W
	u := w.G.U
	v := u.Vals
	A, B := f.A, f.B
	fee := w.Fee
	f.n++
	k := int64(f.O.Var%7 + f.n)
	memo := fmt.Sprintf("farm-%d-%d", f.O.Var, f.n)
	p := w.P
	goal, _ := new(big.Int).SetString(p.PropFundingGoal, 10)
	initial, _ := new(big.Int).SetString(p.PropInitialFunding, 10)
	switch kind {
	case "SEND":
		return txgen.Send(A, A.Addr, B.Addr, txgen.Amt("OLT", olt(5+k)), fee, memo), nil
	case "SENDPOOL":
		return txgen.SendPool(A, A.Addr, "RewardsPool", txgen.Amt("OLT", olt(7+k)), fee, memo), nil
	case "STAKE":
		return txgen.Stake(v[0], v[0].Stake.Addr, txgen.Amt("OLT", big.NewInt(10+k)), fee, memo), nil
	case "UNSTAKE":
		return txgen.Unstake(v[0].Key.Addr, v[0].Stake.Addr, txgen.Amt("OLT", big.NewInt(3+k)), fee, memo, v[0].Stake, v[0].Key), nil
	case "WITHDRAW":
		return txgen.WithdrawStake(v[0].Key.Addr, v[0].Stake.Addr, txgen.Amt("OLT", big.NewInt(1+k%3)), fee, memo, v[0].Stake, v[0].Key), nil
	case "WITHDRAW_REWARD":
		return txgen.WithdrawReward(v[0].Key.Addr, v[0].Stake.Addr, txgen.Amt("OLT", big.NewInt(1+k%2)), fee, memo, v[0].Stake), nil
	case "ADD_NETWORK_DELEGATE":
		return txgen.Delegate(A, A.Addr, txgen.Amt("OLT", olt(3+k)), fee, memo), nil
	case "NETWORK_UNDELEGATE":
		return txgen.Undelegate(A, A.Addr, txgen.Amt("OLT", olt(2+k%5)), fee, memo), nil
	case "REWARDS_WITHDRAW_NETWORK_DELEGATE":
		return txgen.DelegWithdrawRewards(A, A.Addr, txgen.Amt("OLT", big.NewInt(1+k)), fee, memo), nil
	case "REWARDS_REINVEST_NETWORK_DELEGATE":
		return txgen.DelegReinvest(A, A.Addr, txgen.Amt("OLT", big.NewInt(1+k)), fee, memo), nil
	case "ALLEGATION":
		return txgen.Allegation(v[0].Key, fmt.Sprintf("reqN%d", f.n), v[0].Key.Addr, v[2].Key.Addr, 2, "proof", fee, memo), nil
	case "ALLEGATION_VOTE":
		return txgen.AllegationVote(v[0].Key, "reqV", v[0].Key.Addr, 1, fee, memo), nil
	case "RELEASE":
		return txgen.Release(v[4].Key, v[4].Key.Addr, fee, memo), nil
	case "DOMAIN_CREATE":
		return txgen.DomainCreate(A, A.Addr, A.Addr, fmt.Sprintf("fresh%d.ol", f.n), "http://a.b", txgen.Amt("OLT", olt(1001)), fee, memo), nil
	case "DOMAIN_UPDATE":
		return txgen.DomainUpdate(A, A.Addr, B.Addr, "upd.ol", true, "http://c.d", fee, memo), nil
	case "DOMAIN_SELL":
		return txgen.DomainSale(A, A.Addr, "sell.ol", txgen.Amt("OLT", olt(10+k)), false, fee, memo), nil
	case "DOMAIN_PURCHASE":
		return txgen.DomainPurchase(B, B.Addr, B.Addr, "shop.ol", txgen.Amt("OLT", olt(11+k)), fee, memo), nil
	case "DOMAIN_SEND":
		return txgen.DomainSend(B, B.Addr, "send.ol", txgen.Amt("OLT", olt(1+k)), fee, memo), nil
	case "DOMAIN_RENEW":
		return txgen.DomainRenew(A, A.Addr, "renew.ol", txgen.Amt("OLT", olt(1+k)), fee, memo), nil
	case "DOMAIN_DELETE_SUB":
		return txgen.DomainDeleteSub(A, A.Addr, "sub.alice.ol", fee, memo), nil
	case "PROPOSAL_CREATE":
		id := txgen.ProposalID(fmt.Sprintf("subject-%s-%d", p.Seed, f.n))
		h := w.C.Height + 2
		return txgen.ProposalCreate(A, agov.CreateProposal{ProposalID: id, ProposalType: governance.ProposalTypeGeneral, Headline: "h", Description: "d",
			Proposer: A.Addr, InitialFunding: txgen.Amt("OLT", initial), FundingDeadline: h + p.PropFundingDL, FundingGoal: balance.NewAmountFromBigInt(goal),
			VotingDeadline: h + p.PropFundingDL + p.PropVotingDL, PassPercentage: p.PropPassPct}, fee, memo), nil
	case "PROPOSAL_FUND":
		return txgen.ProposalFund(B, f.P["fund"], B.Addr, txgen.Amt("OLT", new(big.Int).Add(new(big.Int).Div(goal, big.NewInt(5)), big.NewInt(k))), fee, memo), nil
	case "PROPOSAL_CANCEL":
		return txgen.ProposalCancel(A, f.P["cancel"], A.Addr, "because", fee, memo), nil
	case "PROPOSAL_VOTE":
		return txgen.ProposalVote(f.P["vote"], v[0].Stake.Addr, v[0].Key.Addr, governance.OPIN_POSITIVE, fee, memo, v[0].Stake, v[0].Key), nil
	case "PROPOSAL_WITHDRAW_FUNDS":
		return txgen.ProposalWithdrawFunds(A, f.P["withdraw"], A.Addr, A.Addr, txgen.Amt("OLT", big.NewInt(1000+k)), fee, memo), nil
	case "PROPOSAL_FINALIZE":
		return txgen.ProposalFinalize(A, f.P["finalize"], A.Addr, fee, memo), nil
	case "EXPIRE_VOTES":
		return txgen.ExpireVotes(A, f.P["expire"], A.Addr, fee, memo), nil
	case "ETH_LOCK":
		raw := txgen.EthLockRaw(f.E, f.ethNonce(), &sim.LockRedeemContract, big.NewInt(1000+k))
		return txgen.EthLock(A, A.Addr, raw, fee, memo), nil
	case "ETH_REDEEM":
		raw := txgen.EthRedeemRaw(f.E, f.ethNonce(), &sim.LockRedeemContract, big.NewInt(500+k))
		return txgen.EthRedeem(A, A.Addr, f.E.Addr, raw, fee, memo), nil
	case "ERC20_LOCK":
		raw := txgen.ERC20LockRaw(f.E, f.ethNonce(), &sim.TestTokenContract, sim.ERCLockContract, big.NewInt(2000+k))
		return txgen.ERC20Lock(A, A.Addr, raw, fee, memo), nil
	case "ERC20_REDEEM":
		raw := txgen.ERC20RedeemRaw(f.E, f.ethNonce(), &sim.ERCLockContract, sim.TestTokenContract, big.NewInt(700+k))
		return txgen.ERC20Redeem(A, A.Addr, f.E.Addr, raw, fee, memo), nil
	case "ETH_REPORT_FINALITY_MINT":
		wl := w.WitnessList()
		for vi := 0; vi < len(p.ValPower); vi++ {
			for i, a := range wl {
				if a.Equal(v[vi].Key.Addr) && vi != 4 { // validator 4 is frozen by the prefix
					return txgen.ReportFinality(v[vi].Key, txgen.TrackerName(f.LockRaw), A.Addr, v[vi].Key.Addr, int64(i), true, fee, memo), nil
				}
			}
		}
		return txgen.Tx{}, fmt.Errorf("no witness")
	case "OLVM":
		if f.O.Fork != 0 {
			return txgen.Tx{}, fmt.Errorf("no EVM in this genesis (fork variant %d)", f.O.Fork)
		}
		return f.MakeOLVM(0, 12345+k), nil
	case "BID_CREATE":
		// a new conversation of B on an asset of its own (the example asset type: every name is available), so that
		// several subjects of one world do not collide on "an active conversation exists already"
		return txgen.BidCreate(B, "", A.Addr, fmt.Sprintf("item-%d-%d", f.O.Var, f.n), txgen.BidAssetExample, B.Addr, txgen.Amt("OLT", olt(2+k)), f.BidDL, fee, memo), nil
	case "BID_CONTER_OFFER":
		return txgen.BidCounterOffer(A, f.Bid[kind], A.Addr, txgen.Amt("OLT", olt(30+k)), fee, memo), nil
	case "BID_CANCEL":
		return txgen.BidCancel(B, f.Bid[kind], B.Addr, fee, memo), nil
	case "BID_BIDDER_DECISION":
		// accept (B pays the counter offer and receives the domain) or reject
		return txgen.BidBidderDecision(B, f.Bid[kind], B.Addr, []int{txgen.BidAccept, txgen.BidAccept, txgen.BidReject}[k%3], fee, memo), nil
	case "BID_OWNER_DECISION":
		// accept (A receives the locked offer, B the domain) or reject (the offer returns to B)
		return txgen.BidOwnerDecision(A, f.Bid[kind], A.Addr, []int{txgen.BidAccept, txgen.BidAccept, txgen.BidReject}[k%3], fee, memo), nil
	case "BID_EXPIRE":
		// the block hook's own transaction, routed from outside: the account named as validator signs and pays
		return txgen.BidExpire(A, f.Bid[kind], A.Addr, fee, memo), nil
	}
	return txgen.Tx{}, fmt.Errorf("unknown kind %s", kind)
}

// MakeOLVMCall builds an OLVM message call to one of the prefix's contracts ("store" succeeds,
// "revert" reverts, "loop" runs out of gas: the latter two fail inside the EVM, are charged
// and committed as executed). The nonce is the account's next nonce plus gap.
func (f *Farm) MakeOLVMCall(which string, gap uint64, arg byte) txgen.Tx {
	w := f.W
	nonce := w.OlvmNext[f.E.Name] + gap
	to := f.Contract[which]
	data := make([]byte, 32)
	data[31] = arg
	gas := int64(100000)
	if which == "loop" {
		gas = 60000
	}
	tx := txgen.OLVM(f.E, txgen.OLVMArgs{ChainID: w.P.ChainID, Nonce: nonce, To: &to, Value: big.NewInt(0), Data: data,
		Fee: txgen.Fee{Price: big.NewInt(1000000000), Cur: "OLT", Gas: gas}})
	tx.Note = fmt.Sprintf("olvm:%s:%d", f.E.Name, nonce)
	return tx
}

// MakeOLVM builds an OLVM transfer from the farm's ethereum key to B whose nonce is the
// account's next nonce plus gap.
func (f *Farm) MakeOLVM(gap uint64, value int64) txgen.Tx {
	w := f.W
	nonce := w.OlvmNext[f.E.Name] + gap
	to := ethcmn.BytesToAddress(f.B.Addr)
	tx := txgen.OLVM(f.E, txgen.OLVMArgs{ChainID: w.P.ChainID, Nonce: nonce, To: &to, Value: big.NewInt(value),
		Fee: txgen.Fee{Price: big.NewInt(1000000000), Cur: "OLT", Gas: 100000}})
	tx.Note = fmt.Sprintf("olvm:%s:%d", f.E.Name, nonce)
	return tx
}
