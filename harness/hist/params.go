package hist

import (
	"fmt"

	"pgregory.net/rapid"

	"verif/sim"
)

// GenParams draws a genesis configuration. Small option values are reachable through the
// (unvalidated) genesis file exactly as the devnet command parameterises them.
func GenParams(t *rapid.T, seedTag string) sim.Params {
	p := sim.DefaultParams()
	p.Seed = "s" + seedTag
	nv := rapid.IntRange(1, 7).Draw(t, "nvals")
	// fork shape: at 1 (EVM on, staking options forced to 64/500000), disabled, or mid-history
	switch rapid.IntRange(0, 5).Draw(t, "fork") {
	case 0:
		p.Frankenstein = 0
	case 1:
		p.Frankenstein = int64(rapid.IntRange(2, 12).Draw(t, "forkh"))
	default:
		p.Frankenstein = 1
	}
	p.MinSelfDeleg = int64(rapid.SampledFrom([]int{500000, 500000, 3000000, 10}).Draw(t, "minself"))
	p.TopCount = int64(rapid.IntRange(1, 5).Draw(t, "top"))
	p.Maturity = int64(rapid.IntRange(1, 6).Draw(t, "maturity"))
	p.ValPower = nil
	for i := 0; i < nv; i++ {
		d := int64(rapid.SampledFrom([]int{0, 0, 1, 2, 5, 1000}).Draw(t, "powd"))
		p.ValPower = append(p.ValPower, p.MinSelfDeleg+d)
	}
	p.ExtraVals = rapid.IntRange(1, 3).Draw(t, "extra")
	p.Witnesses = nil
	for i := 0; i < nv; i++ {
		if rapid.IntRange(0, 3).Draw(t, "wit") != 0 {
			p.Witnesses = append(p.Witnesses, i)
		}
	}
	p.Evidence.BlockVotesDiff = int64(rapid.IntRange(2, 6).Draw(t, "bvd"))
	p.Evidence.MinVotesRequired = int64(rapid.IntRange(1, int(p.Evidence.BlockVotesDiff)).Draw(t, "mvr"))
	p.Evidence.ValidatorReleaseTime = int64(rapid.SampledFrom([]int{0, 0, 1}).Draw(t, "reltime"))
	p.Evidence.PenaltyBasePercentage = int64(rapid.SampledFrom([]int{30, 10, 33}).Draw(t, "penpct"))
	p.PropFundingDL = int64(rapid.IntRange(2, 8).Draw(t, "fdl"))
	p.PropVotingDL = int64(rapid.IntRange(2, 8).Draw(t, "vdl"))
	p.PropPassPct = rapid.SampledFrom([]int{51, 67, 80}).Draw(t, "pass")
	// rewards: devnet defaults or scaled so that cycle / year boundaries fall inside a short history
	if rapid.Bool().Draw(t, "rewscaled") {
		p.RewardCycle = int64(rapid.IntRange(2, 6).Draw(t, "cycle"))
		p.RewardEstSecs = p.RewardCycle * int64(rapid.SampledFrom([]int{5, 17, 60}).Draw(t, "estper"))
		p.RewardCloseWin = int64(rapid.SampledFrom([]int{30, 120, 600}).Draw(t, "closewin"))
		p.RewardYearShares = []string{"1000000000000000000000", "500000000000000000000"}[:rapid.IntRange(1, 2).Draw(t, "nyears")]
		p.RewardBurnout = "50000000000000000"
	}
	p.RewardInterval = int64(rapid.IntRange(1, 5).Draw(t, "rewint"))
	p.RewardPoolFund = rapid.SampledFrom([]string{"0", "1000000000000000000000000", "7"}).Draw(t, "poolfund")
	if rapid.IntRange(0, 3).Draw(t, "predeleg") == 0 {
		n := rapid.IntRange(1, 3).Draw(t, "npre")
		for i := 0; i < n; i++ {
			p.PreDelegations = append(p.PreDelegations, sim.PreDeleg{User: i, Amount: fmt.Sprintf("%d000000000000000000", rapid.IntRange(1, 500).Draw(t, "preamt"))})
		}
	}
	if rapid.IntRange(0, 3).Draw(t, "preeth") == 0 {
		p.PreEthBalances = append(p.PreEthBalances, sim.PreBal{User: 0, Cur: "ETH", Amount: "500000"}, sim.PreBal{User: 1, Cur: "TTC", Amount: "700000"})
	}
	return p
}

// Roles returns n node identities for params p: a validator (witness iff listed), further
// validators, and a non-validator holding keys outside the genesis set.
func Roles(p sim.Params, n int) []sim.Role {
	isW := map[int]bool{}
	for _, w := range p.Witnesses {
		isW[w] = true
	}
	nv := len(p.ValPower)
	var out []sim.Role
	for i := 0; i < n; i++ {
		if i == n-1 && n > 1 {
			out = append(out, sim.Role{ValIdx: nv, IsWitness: false}) // non-validator
			continue
		}
		vi := i % nv
		out = append(out, sim.Role{ValIdx: vi, IsWitness: isW[vi]})
	}
	return out
}
