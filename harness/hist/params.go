package hist

import (
	"fmt"

	"pgregory.net/rapid"

	"verif/sim"
)

// GenParams draws a genesis configuration. Small option values are reachable through the
// (unvalidated) genesis file exactly as the devnet command parameterises them.
// U draws approximately uniform integers from a rapid.T (rapid's own integer generators are
// biased towards small values); see Gen.Uniform.
type U struct {
	T    *rapid.T
	salt uint64
}

func NewU(t *rapid.T) *U { return &U{T: t} }

// N returns an approximately uniform integer in [0, n).
func (u *U) N(n int, label string) int {
	if n <= 1 {
		return 0
	}
	u.salt++
	x := rapid.Uint64().Draw(u.T, label) + u.salt*0x9e3779b97f4a7c15
	x ^= x >> 30
	x *= 0xbf58476d1ce4e5b9
	x ^= x >> 27
	x *= 0x94d049bb133111eb
	x ^= x >> 31
	return int(x % uint64(n))
}

// Range returns an approximately uniform integer in [lo, hi].
func (u *U) Range(lo, hi int, label string) int { return lo + u.N(hi-lo+1, label) }

// PickProfile draws a focus profile uniformly.
func PickProfile(t *rapid.T) string {
	return ProfileNames[NewU(t).N(len(ProfileNames), "profile")]
}

func GenParams(t *rapid.T, seedTag string) sim.Params {
	p := sim.DefaultParams()
	p.Seed = "s" + seedTag
	u := NewU(t)
	nv := u.Range(1, 7, "nvals")
	if nv < 3 && u.N(2, "nvals-more") == 0 {
		nv += 3 // most block-level hooks need several validators
	}
	// fork shape: at 1 (EVM on, staking options forced to 64/500000), disabled, or mid-history
	switch u.N(6, "fork") {
	case 0:
		p.Frankenstein = 0
	case 1:
		p.Frankenstein = int64(rapid.IntRange(2, 12).Draw(t, "forkh"))
	default:
		p.Frankenstein = 1
	}
	p.MinSelfDeleg = int64(rapid.SampledFrom([]int{500000, 500000, 3000000, 10}).Draw(t, "minself"))
	p.TopCount = int64(u.Range(1, 5, "top"))
	p.Maturity = int64(u.Range(1, 6, "maturity"))
	p.ValPower = nil
	for i := 0; i < nv; i++ {
		d := int64(rapid.SampledFrom([]int{0, 0, 1, 2, 5, 1000}).Draw(t, "powd"))
		p.ValPower = append(p.ValPower, p.MinSelfDeleg+d)
	}
	p.ExtraVals = rapid.IntRange(1, 3).Draw(t, "extra")
	p.Witnesses = nil
	for i := 0; i < nv; i++ {
		if u.N(4, "wit") != 0 {
			p.Witnesses = append(p.Witnesses, i)
		}
	}
	p.Evidence.BlockVotesDiff = int64(rapid.IntRange(2, 6).Draw(t, "bvd"))
	p.Evidence.MinVotesRequired = int64(rapid.IntRange(1, int(p.Evidence.BlockVotesDiff)).Draw(t, "mvr"))
	p.Evidence.ValidatorReleaseTime = int64(rapid.SampledFrom([]int{0, 0, 1}).Draw(t, "reltime"))
	p.Evidence.PenaltyBasePercentage = int64(rapid.SampledFrom([]int{30, 10, 33}).Draw(t, "penpct"))
	p.NoDelegOptions = u.N(5, "nodelegopt") == 0
	p.CarryStakeSnapshot = u.N(4, "carrystake") == 0
	p.PropFundingDL = int64(u.Range(2, 8, "fdl"))
	p.PropVotingDL = int64(u.Range(2, 8, "vdl"))
	p.PropPassPct = rapid.SampledFrom([]int{51, 67, 80}).Draw(t, "pass")
	// rewards: devnet defaults or scaled so that cycle / year boundaries fall inside a short history
	if u.N(2, "rewscaled") == 0 {
		p.RewardCycle = int64(u.Range(2, 6, "cycle"))
		p.RewardEstSecs = p.RewardCycle * int64(rapid.SampledFrom([]int{5, 17, 60}).Draw(t, "estper"))
		p.RewardCloseWin = int64(rapid.SampledFrom([]int{30, 120, 600}).Draw(t, "closewin"))
		p.RewardYearShares = []string{"1000000000000000000000", "500000000000000000000"}[:rapid.IntRange(1, 2).Draw(t, "nyears")]
		p.RewardBurnout = "50000000000000000"
	}
	p.RewardInterval = int64(u.Range(1, 5, "rewint"))
	p.RewardPoolFund = rapid.SampledFrom([]string{"0", "1000000000000000000000000", "7"}).Draw(t, "poolfund")
	if u.N(4, "predeleg") == 0 {
		n := rapid.IntRange(1, 3).Draw(t, "npre")
		for i := 0; i < n; i++ {
			p.PreDelegations = append(p.PreDelegations, sim.PreDeleg{User: i, Amount: fmt.Sprintf("%d000000000000000000", rapid.IntRange(1, 500).Draw(t, "preamt"))})
		}
	}
	if u.N(4, "preeth") == 0 {
		p.PreEthBalances = append(p.PreEthBalances, sim.PreBal{User: 0, Cur: "ETH", Amount: "500000"}, sim.PreBal{User: 1, Cur: "TTC", Amount: "700000"})
	}
	return p
}

// Roles returns n node identities for params p: a validator (witness iff listed), further
// validators, and a non-validator holding keys outside the genesis set.
func Roles(p sim.Params, n int) []sim.Role {
	isW := map[int]bool{}
	for _, w := range p.Witnesses {
		isW[w] = true
	}
	nv := len(p.ValPower)
	var out []sim.Role
	for i := 0; i < n; i++ {
		if i == n-1 && n > 1 {
			out = append(out, sim.Role{ValIdx: nv, IsWitness: false}) // non-validator
			continue
		}
		vi := i % nv
		out = append(out, sim.Role{ValIdx: vi, IsWitness: isW[vi]})
	}
	return out
}
