package hist

import (
	"fmt"
	"os"
	"testing"

	"verif/sim"
)

// TestFarm checks that after the scripted prefix a transaction of every kind is accepted by
// CheckTx and succeeds in DeliverTx (speculatively, in the next block).
func TestFarm(t *testing.T) {
	out := sim.Quiet()
	for _, o := range []FarmOpts{{A: 0, B: 1, Eth: 0, Var: 0}, {A: 2, B: 5, Eth: 1, Var: 3}, {A: 1, B: 2, Eth: 0, Var: 1, Fork: 1}, {A: 3, B: 4, Eth: 1, Var: 2, Fork: 2}} {
		p := PrepareFarmParams(FarmParams("farmtest"), o)
		w, err := NewWorld(p, []sim.Role{{ValIdx: 0, IsWitness: true}})
		if err != nil {
			t.Fatal(err)
		}
		if _, err := w.Init(); err != nil {
			t.Fatal(err)
		}
		f := BuildFarm(w, o)
		if os.Getenv("FARM_VERBOSE") != "" {
			for _, l := range f.Log {
				fmt.Fprintln(out, l)
			}
		}
		for _, l := range f.PrefixFail {
			t.Errorf("prefix tx failed: %s", l)
		}
		for _, kind := range FarmKinds {
			tmpl := w.C.MakeBlock(sim.BlockSpec{GapSecs: 5})
			tx, err := f.Make(kind)
			if err != nil && kind == "OLVM" && o.Fork != 0 {
				continue
			}
			if err != nil {
				t.Errorf("%s: %v", kind, err)
				continue
			}
			ck := w.R[0].CheckTx(tx.Bytes)
			b := *tmpl
			b.Txs = [][]byte{tx.Bytes}
			res := w.R[0].SpecBlock(&b)
			if w.R[0].Panicked {
				t.Fatalf("%s: panic in %s", kind, w.R[0].PanicCall)
			}
			fmt.Fprintf(out, "%-36s check=%d deliver=%d  %.100s | %.100s\n", kind, ck.Code, res.Txs[0].Code, ck.Log, res.Txs[0].Log)
			// a user's EXPIRE_VOTES can only succeed in the block right after the voting deadline, where the
			// mempool check (previous header) still answers "deadline not reached": deliver-only
			if (ck.Code != 0 && kind != "EXPIRE_VOTES") || res.Txs[0].Code != 0 {
				t.Errorf("%s not accepted: check=%d (%s) deliver=%d (%s)", kind, ck.Code, ck.Log, res.Txs[0].Code, res.Txs[0].Log)
			}
			// commit the (empty) block so that the mempool state is reset before the next kind
			br := w.R[0].RunBlock(tmpl)
			_ = w.C.Advance(br.AppHash, br.Updates)
		}
		// message calls to the prefix's contracts: all are committed as executed (code 0), also the
		// ones that fail inside the EVM
		for _, which := range []string{"store", "revert", "loop"} {
			if o.Fork != 0 {
				break // no EVM without the fork
			}
			tmpl := w.C.MakeBlock(sim.BlockSpec{GapSecs: 5})
			tx := f.MakeOLVMCall(which, 0, 7)
			ck := w.R[0].CheckTx(tx.Bytes)
			b := *tmpl
			b.Txs = [][]byte{tx.Bytes}
			res := w.R[0].SpecBlock(&b)
			fmt.Fprintf(out, "OLVM call %-8s check=%d deliver=%d gas=%d %.100s\n", which, ck.Code, res.Txs[0].Code, res.Txs[0].GasUsed, res.Txs[0].Log)
			if ck.Code != 0 || res.Txs[0].Code != 0 {
				t.Errorf("OLVM call %s not accepted: check=%d deliver=%d %s", which, ck.Code, res.Txs[0].Code, res.Txs[0].Log)
			}
			br := w.R[0].RunBlock(tmpl)
			_ = w.C.Advance(br.AppHash, br.Updates)
		}
		w.Close()
	}
}
