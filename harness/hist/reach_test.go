package hist

import (
	"fmt"
	"os"
	"sort"
	"testing"

	"pgregory.net/rapid"

	"verif/run"
)

// TestReach prints, per profile, how often each transaction kind succeeds (generator health).
func TestReach(t *testing.T) {
	if os.Getenv("VERIF_REACH") == "" {
		t.Skip("set VERIF_REACH=1")
	}
	out := run.Quiet()
	okc := map[string]map[string][2]int{}
	fails := map[string][]string{}
	rapid.Check(t, func(rt *rapid.T) {
		p := GenParams(rt, "reach")
		prof := ProfileNames[rapid.IntRange(0, len(ProfileNames)-1).Draw(rt, "profile")]
		w, err := NewWorld(p, Roles(p, 1))
		if err != nil {
			rt.Fatal(err)
		}
		defer w.Close()
		if _, err := w.Init(); err != nil {
			rt.Fatal(err)
		}
		g := &Gen{W: w, T: rt, Hostile: 4, Strange: 8, Kinds: Profiles[prof]}
		for b := 0; b < 30; b++ {
			txs := g.DrawTxs(5)
			spec := g.DrawEnv(txs)
			_, res := w.RunBlock(spec)
			if res[0].Aborted {
				rt.Fatalf("aborted")
			}
			w.Observe(txs, res[0])
			if okc[prof] == nil {
				okc[prof] = map[string][2]int{}
			}
			for i, tx := range txs {
				c := okc[prof][tx.Kind]
				c[1]++
				if res[0].Txs[i].Code == 0 {
					c[0]++
				} else if len(fails[tx.Kind]) < 400 {
					l := res[0].Txs[i].Log
					if len(l) > 90 {
						l = l[:90]
					}
					fails[tx.Kind] = append(fails[tx.Kind], fmt.Sprint(tx.Tags)+" "+l)
				}
				okc[prof][tx.Kind] = c
			}
		}
	})
	for _, k := range []string{"PROPOSAL_FUND", "PROPOSAL_VOTE", "ALLEGATION", "ALLEGATION_VOTE", "WITHDRAW_REWARD", "ETH_REDEEM", "DOMAIN_PURCHASE"} {
		cnt := map[string]int{}
		for _, f := range fails[k] {
			cnt[f]++
		}
		var fs []string
		for f := range cnt {
			fs = append(fs, f)
		}
		sort.Slice(fs, func(i, j int) bool { return cnt[fs[i]] > cnt[fs[j]] })
		fmt.Fprintf(out, "-- failures of %s\n", k)
		for i, f := range fs {
			if i > 7 {
				break
			}
			fmt.Fprintf(out, "   %4d %s\n", cnt[f], f)
		}
	}
	for _, prof := range ProfileNames {
		var ks []string
		for k := range okc[prof] {
			ks = append(ks, k)
		}
		sort.Strings(ks)
		fmt.Fprintf(out, "== %s\n", prof)
		for _, k := range ks {
			c := okc[prof][k]
			fmt.Fprintf(out, "   %-36s %4d/%4d ok\n", k, c[0], c[1])
		}
	}
}
