package hist

import (
	"encoding/json"
	"math"
	"math/big"
	"strings"

	"github.com/Oneledger/protocol/data/keys"
	"github.com/Oneledger/protocol/external_apps/bid/bid_data"
	"github.com/Oneledger/protocol/serialize"

	"verif/sim"
	"verif/txgen"
)

// The bid application (external_apps/bid): a bidder opens a conversation on an asset (an ONS top-level
// domain, or the always-available "example" asset) and locks OLT in an offer record; the owner answers with a
// counter offer, an acceptance or a rejection; the bidder answers a counter offer with a lower offer, an
// acceptance or a rejection, or cancels; a block hook expires conversations past their deadline.
//
// The generator keeps no bookkeeping of its own: conversation ids are chosen by the application, so the ACTIVE
// conversations and their active offers are read from the primary's committed state before every draw.

// BidConvView is a bid conversation of the committed state (with its active offer when it sits in ACTIVE).
type BidConvView struct {
	ID       string
	Owner    keys.Address
	Bidder   keys.Address
	Asset    string
	Type     int
	Deadline int64
	// active offer: 0 none, 1 bid offer (amount locked from the bidder), 2 counter offer (nothing locked)
	OfferType int
	Offer     *big.Int
}

// BidStates are the conversation stores (key prefix "extBidConv" + state + id).
var BidStates = []string{"Active", "Succeed", "Cancelled", "Expired", "Rejected"}

// BidConvs returns the conversations of one store of the committed state in key order.
func (w *World) BidConvs(state string) []BidConvView {
	pre := "extBidConv" + state
	end := []byte(pre)
	end[len(end)-1]++
	var out []BidConvView
	szlr := serialize.GetSerializer(serialize.LOCAL)
	w.Primary().App.Context.Storage().Chainstate.IterateRange([]byte(pre), end, true, func(k, v []byte) bool {
		c := &bid_data.BidConv{}
		if szlr.Deserialize(v, c) != nil {
			return false
		}
		out = append(out, BidConvView{ID: string(k[len(pre):]), Owner: c.AssetOwner, Bidder: c.Bidder, Asset: c.AssetName,
			Type: int(c.AssetType), Deadline: c.DeadlineUTC, Offer: big.NewInt(0)})
		return false
	})
	return out
}

// ActiveBids returns the ACTIVE conversations with their active offers.
func (w *World) ActiveBids() []BidConvView {
	out := w.BidConvs("Active")
	for i := range out {
		v := w.Get("extBidOffer_ACTIVE_" + out[i].ID)
		if len(v) == 0 {
			continue
		}
		var o struct {
			OfferType int `json:"offerType"`
			Amount    struct {
				Value string `json:"value"`
			} `json:"amount"`
		}
		if json.Unmarshal(v, &o) != nil {
			continue
		}
		out[i].OfferType = o.OfferType
		if a, ok := new(big.Int).SetString(o.Amount.Value, 10); ok {
			out[i].Offer = a
		}
	}
	return out
}

// DomainRec is the part of a committed domain record the bid generator needs.
type DomainRec struct {
	Owner  keys.Address `json:"a"`
	Expire int64        `json:"f"`
	OnSale bool         `json:"h"`
}

func (w *World) DomainRec(name string) *DomainRec {
	v := w.Get("d_" + reverseStr(name))
	if len(v) == 0 {
		return nil
	}
	d := &DomainRec{}
	if json.Unmarshal(v, d) != nil {
		return nil
	}
	return d
}

// bidUsers: the accounts that bid (the first six users; domain owners are the first four).
func (g *Gen) bidUser(label string) *sim.User {
	us := g.W.G.U.Users
	return us[g.Uniform(min(6, len(us)), label)]
}

func (g *Gen) otherUser(not keys.Address, label string) *sim.User {
	us := g.W.G.U.Users
	n := min(6, len(us))
	i := g.Uniform(n, label)
	for k := 0; k < n; k++ {
		if u := us[(i+k)%n]; !u.Addr.Equal(not) {
			return u
		}
	}
	return us[i]
}

// bidParty returns who signs for the conversation party at addr and which address the message names:
// the party itself, or (Strange) somebody else's key under the party's address (refused with the
// signature) or a stranger naming itself (refused by the identity check of the action).
func (g *Gen) bidParty(addr keys.Address, label string) (*sim.User, keys.Address, string) {
	u := g.W.G.U.ByAddr(addr)
	if u == nil {
		return g.otherUser(addr, label+"-unk"), addr, "signer-other"
	}
	if g.pct(g.Strange, label+"-s") {
		o := g.otherUser(addr, label+"-o")
		if g.Uniform(2, label+"-sk") == 0 {
			return o, addr, "signer-other"
		}
		return o, o.Addr, "party-other"
	}
	return u, addr, ""
}

// pickBid picks an ACTIVE conversation, preferring one in the wanted stage; with Strange probability any
// conversation (wrong stage), a closed one, or an id that never existed. nil = nothing suitable exists.
func (g *Gen) pickBid(label string, want func(c *BidConvView) bool) (*BidConvView, string) {
	w := g.W
	act := w.ActiveBids()
	if g.pct(g.Strange, label+"-odd") {
		switch g.Uniform(3, label+"-oddk") {
		case 0:
			if len(act) > 0 {
				return &act[g.Uniform(len(act), label+"-any")], "conv-any-stage"
			}
		case 1:
			st := BidStates[1+g.Uniform(len(BidStates)-1, label+"-closedst")]
			if cl := w.BidConvs(st); len(cl) > 0 {
				c := cl[g.Uniform(len(cl), label+"-closed")]
				return &c, "conv-closed"
			}
		}
		u := g.bidUser(label + "-nou")
		o := g.otherUser(u.Addr, label+"-noo")
		return &BidConvView{ID: txgen.BidConvID(o.Addr, "nosuch.ol", u.Addr, int64(g.Uniform(3, label+"-noh"))), Owner: o.Addr, Bidder: u.Addr,
			Asset: "nosuch.ol", Type: txgen.BidAssetOns, Offer: big.NewInt(0)}, "conv-unknown"
	}
	var ok []int
	for i := range act {
		if want == nil || want(&act[i]) {
			ok = append(ok, i)
		}
	}
	if len(ok) == 0 {
		return nil, ""
	}
	return &act[ok[g.Uniform(len(ok), label)]], "conv-ok"
}

func isNegTag(t string) bool { return strings.HasPrefix(t, "amt-neg") }

// bidDeadline draws a deadline (unix seconds; the application compares it with the block header's time):
// a few seconds ahead of the last block (expires within a block or two, may already be late for the next
// block), minutes, hours, or far beyond any history; hostile ones are in the past or at the int64 edges.
func (g *Gen) bidDeadline(label string) (int64, string) {
	now := g.W.C.Time.Unix()
	if g.pct(g.Hostile, label+"-h") {
		return []int64{0, -1, now - 100, now, math.MaxInt64, math.MinInt64, 1 << 40}[g.Uniform(7, label+"-hv")], "dl-hostile"
	}
	switch g.Uniform(10, label) {
	case 0, 1, 2:
		return now + []int64{2, 3, 5, 6, 9, 20}[g.Uniform(6, label+"-s")], "dl-seconds"
	case 3, 4:
		return now + []int64{30, 70, 100, 600}[g.Uniform(4, label+"-m")], "dl-minutes"
	case 5, 6:
		return now + []int64{4000, 90000, 200000}[g.Uniform(3, label+"-hr")], "dl-hours"
	}
	return now + 4000000 + int64(g.Uniform(1000, label+"-far")), "dl-far"
}

// bidAsset draws the asset of a new conversation: mostly an existing, unexpired, not-on-sale top-level
// domain with its committed owner; sometimes the example asset; with Strange probability an unavailable one.
func (g *Gen) bidAsset() (name string, owner keys.Address, atype int, tag string, ok bool) {
	w := g.W
	if g.pct(g.Strange, "asset-odd") {
		u := g.domUser("asset-odd-owner")
		switch g.Uniform(5, "asset-oddk") {
		case 0:
			return "x.alice.ol", u.Addr, txgen.BidAssetOns, "asset-subdomain", true
		case 1:
			return g.domName("asset-odd-name"), u.Addr, txgen.BidAssetOns, "asset-any-name", true
		case 2:
			// somebody who does not own the name is named as its owner
			n := g.existingDom("asset-odd-ex")
			return n, g.otherUser(u.Addr, "asset-odd-o").Addr, txgen.BidAssetOns, "asset-wrong-owner", true
		case 3:
			return "alice.ol", u.Addr, []int{0, 0xEE, 0x23, -1}[g.Uniform(4, "asset-type")], "asset-type-unknown", true
		default:
			a, atag := g.someAddr("asset-odd-addr")
			return "car", a, txgen.BidAssetExample, "asset-example-" + atag, true
		}
	}
	type cand struct {
		name  string
		owner keys.Address
	}
	var cs []cand
	for _, n := range domNames {
		if strings.Count(n, ".") != 1 {
			continue
		}
		d := w.DomainRec(n)
		// on sale / expired names are refused (the expiry is compared with the tree version = last height)
		if d == nil || d.OnSale || d.Expire <= w.C.Height+1 {
			continue
		}
		cs = append(cs, cand{n, d.Owner})
	}
	if len(cs) == 0 || g.Uniform(8, "asset-example") == 0 {
		if len(cs) == 0 && g.Uniform(3, "asset-none") != 0 {
			return "", nil, 0, "", false // caller creates a domain instead
		}
		return []string{"car", "boat", "alice.ol"}[g.Uniform(3, "asset-exname")], g.bidUser("asset-exowner").Addr, txgen.BidAssetExample, "asset-example", true
	}
	c := cs[g.Uniform(len(cs), "asset")]
	return c.name, c.owner, txgen.BidAssetOns, "asset-domain", true
}

// BidCreate opens a conversation with a first offer, or (when a conversation carries a counter offer)
// answers it with a new, lower offer.
func (g *Gen) BidCreate() txgen.Tx {
	w := g.W
	if g.Uniform(3, "bid-form") == 0 {
		if c, ctag := g.pickBid("conv", func(c *BidConvView) bool { return c.OfferType == 2 }); c != nil {
			return g.bidAddOffer(c, ctag)
		}
	}
	name, owner, atype, atag, ok := g.bidAsset()
	if !ok {
		return g.DomainCreate()
	}
	bidder := g.otherUser(owner, "bidder")
	tags := []string{atag}
	if g.pct(g.Strange, "selfbid") {
		if u := w.G.U.ByAddr(owner); u != nil {
			bidder = u
			tags = append(tags, "bidder-is-owner")
		}
	}
	capv := new(big.Int).Div(w.Bal(bidder.Addr, "OLT"), big.NewInt(50))
	amt, mtag := g.amount(capv, "amt")
	if isNegTag(mtag) && g.excluded("BID_CREATE:amt-neg") {
		amt, mtag = big.NewInt(1), "amt-ok"
	}
	cur, ctag := g.currency("OLT", "cur")
	dl, dtag := g.bidDeadline("deadline")
	s, named, ptag := g.bidParty(bidder.Addr, "signer")
	tx := txgen.BidCreate(s, "", owner, name, atype, named, txgen.Amt(cur, amt), dl, w.Fee, w.Memo())
	tx.Tags = append(tags, mtag, ctag, dtag, "bid-new")
	if ptag != "" {
		g.tag(&tx, ptag)
	}
	return g.note(tx)
}

func (g *Gen) bidAddOffer(c *BidConvView, ctag string) txgen.Tx {
	w := g.W
	// below the counter offer (and what the bidder can pay)
	capv := new(big.Int).Sub(c.Offer, big.NewInt(1))
	if b := new(big.Int).Div(w.Bal(c.Bidder, "OLT"), big.NewInt(20)); b.Cmp(capv) < 0 {
		capv = b
	}
	amt, mtag := g.amount(capv, "amt")
	if isNegTag(mtag) && g.excluded("BID_CREATE:amt-neg") {
		amt, mtag = big.NewInt(1), "amt-ok"
	}
	cur, cutag := g.currency("OLT", "cur")
	s, named, ptag := g.bidParty(c.Bidder, "signer")
	// only the id, the bidder and the amount matter in this form; the rest is sometimes filled in anyway
	owner, name, atype, dl := keys.Address(nil), "", 0, int64(0)
	if g.Uniform(3, "addoffer-full") == 0 {
		owner, name, atype, dl = c.Owner, c.Asset, c.Type, c.Deadline
	}
	tx := txgen.BidCreate(s, c.ID, owner, name, atype, named, txgen.Amt(cur, amt), dl, w.Fee, w.Memo())
	tx.Tags = []string{ctag, mtag, cutag, "bid-add-offer"}
	if ptag != "" {
		g.tag(&tx, ptag)
	}
	return g.note(tx)
}

// BidCounterOffer: the owner answers the active bid offer with a higher price.
func (g *Gen) BidCounterOffer() txgen.Tx {
	w := g.W
	c, ctag := g.pickBid("conv", func(c *BidConvView) bool { return c.OfferType == 1 })
	if c == nil {
		return g.BidCreate()
	}
	base := c.Offer
	if base.Sign() <= 0 {
		base = big.NewInt(1000)
	}
	amt, mtag := g.amount(base, "amt")
	if mtag == "amt-ok" || mtag == "amt-all" {
		amt = new(big.Int).Add(c.Offer, amt) // offer+1 .. 2*offer
	}
	cur, cutag := g.currency("OLT", "cur")
	s, named, ptag := g.bidParty(c.Owner, "signer")
	tx := txgen.BidCounterOffer(s, c.ID, named, txgen.Amt(cur, amt), w.Fee, w.Memo())
	tx.Tags = []string{ctag, mtag, cutag}
	if ptag != "" {
		g.tag(&tx, ptag)
	}
	return g.note(tx)
}

// BidCancel: the bidder withdraws (any active offer is dropped, a locked amount returns).
func (g *Gen) BidCancel() txgen.Tx {
	w := g.W
	c, ctag := g.pickBid("conv", nil)
	if c == nil {
		return g.BidCreate()
	}
	s, named, ptag := g.bidParty(c.Bidder, "signer")
	tx := txgen.BidCancel(s, c.ID, named, w.Fee, w.Memo())
	tx.Tags = []string{ctag}
	if ptag != "" {
		g.tag(&tx, ptag)
	}
	return g.note(tx)
}

func (g *Gen) bidDecision(label string) (int, string) {
	if g.pct(g.Hostile, label+"-h") {
		return []int{0, 3, -1, 255, 1 << 31}[g.Uniform(5, label+"-hv")], "enum-out"
	}
	if g.Uniform(5, label) < 3 {
		return txgen.BidAccept, "decision-accept"
	}
	return txgen.BidReject, "decision-reject"
}

// BidBidderDecision: the bidder accepts (pays the counter offer, receives the asset) or rejects a counter offer.
func (g *Gen) BidBidderDecision() txgen.Tx {
	w := g.W
	c, ctag := g.pickBid("conv", func(c *BidConvView) bool { return c.OfferType == 2 })
	if c == nil {
		// no counter offer anywhere: make one (or a conversation to make one on)
		return g.BidCounterOffer()
	}
	d, dtag := g.bidDecision("decision")
	s, named, ptag := g.bidParty(c.Bidder, "signer")
	tx := txgen.BidBidderDecision(s, c.ID, named, d, w.Fee, w.Memo())
	tx.Tags = []string{ctag, dtag}
	if ptag != "" {
		g.tag(&tx, ptag)
	}
	return g.note(tx)
}

// BidOwnerDecision: the owner accepts (receives the locked amount, hands the asset over) or rejects a bid offer.
func (g *Gen) BidOwnerDecision() txgen.Tx {
	w := g.W
	c, ctag := g.pickBid("conv", func(c *BidConvView) bool { return c.OfferType == 1 })
	if c == nil {
		return g.BidCreate()
	}
	d, dtag := g.bidDecision("decision")
	s, named, ptag := g.bidParty(c.Owner, "signer")
	tx := txgen.BidOwnerDecision(s, c.ID, named, d, w.Fee, w.Memo())
	tx.Tags = []string{ctag, dtag}
	if ptag != "" {
		g.tag(&tx, ptag)
	}
	return g.note(tx)
}

// BidExpire: the transaction the block beginner queues for itself is also routed from outside. Signed by a
// validator's consensus key (the fee is charged to that key's own account, which is usually empty: the
// generator funds it now and then), a validator's stake account, or anybody.
func (g *Gen) BidExpire() txgen.Tx {
	w := g.W
	c, ctag := g.pickBid("conv", nil)
	if c == nil {
		return g.BidCreate()
	}
	var s *sim.User
	stag := ""
	switch g.Uniform(5, "expire-signer") {
	case 0, 1:
		v := g.val("expire-val")
		// prefer a validator whose key account can pay the fee
		for _, x := range w.G.U.Vals {
			if w.Bal(x.Key.Addr, "OLT").Sign() > 0 && g.Uniform(4, "expire-funded") != 0 {
				v = x
				break
			}
		}
		s, stag = v.Key, "signer-valkey"
		if w.Bal(s.Addr, "OLT").Sign() == 0 && g.Uniform(3, "expire-fund") != 0 {
			tx := txgen.Send(v.Stake, v.Stake.Addr, s.Addr, txgen.Amt("OLT", oltWhole(int64(1+g.Uniform(5, "expire-fundamt")))), w.Fee, w.Memo())
			tx.Tags = []string{"addr-valkey", "cur-ok", "amt-ok"}
			return g.note(tx)
		}
	case 2:
		s, stag = g.val("expire-val").Stake, "signer-valstake"
	default:
		s, stag = g.bidUser("expire-user"), "signer-stranger"
	}
	tx := txgen.BidExpire(s, c.ID, s.Addr, w.Fee, w.Memo())
	tx.Tags = []string{ctag, stag}
	if c.Deadline >= w.C.Time.Unix() {
		g.tag(&tx, "before-deadline")
	}
	return g.note(tx)
}
