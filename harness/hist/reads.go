package hist

import (
	"encoding/json"

	"github.com/Oneledger/protocol/data/governance"
	"github.com/Oneledger/protocol/data/keys"

	"verif/sim"
)

// PropVoting reports whether the proposal is in the active store with voting status (committed state).
func (w *World) PropVoting(id governance.ProposalID) bool {
	v := w.Get("propActive" + string(id))
	if len(v) == 0 {
		return false
	}
	var p struct {
		Status int `json:"status"`
	}
	if json.Unmarshal(v, &p) != nil {
		return false
	}
	return p.Status == int(governance.ProposalStatusVoting)
}

// PropFunding reports whether the proposal is in the active store with funding status.
func (w *World) PropFunding(id governance.ProposalID) bool {
	v := w.Get("propActive" + string(id))
	if len(v) == 0 {
		return false
	}
	var p struct {
		Status int `json:"status"`
	}
	if json.Unmarshal(v, &p) != nil {
		return false
	}
	return p.Status == int(governance.ProposalStatusFunding)
}

func reverseStr(s string) string {
	r := []rune(s)
	for i, j := 0, len(r)-1; i < j; i, j = i+1, j-1 {
		r[i], r[j] = r[j], r[i]
	}
	return string(r)
}

// DomainOwner returns the universe account owning the name in the committed state (nil if none / unknown).
func (w *World) DomainOwner(name string) *sim.User {
	v := w.Get("d_" + reverseStr(name))
	if len(v) == 0 {
		return nil
	}
	var d struct {
		Owner keys.Address `json:"a"`
	}
	if json.Unmarshal(v, &d) != nil {
		return nil
	}
	return w.G.U.ByAddr(d.Owner)
}

// DomainBeneficiary returns the universe account recorded as the name's beneficiary (nil if none / unknown).
func (w *World) DomainBeneficiary(name string) *sim.User {
	v := w.Get("d_" + reverseStr(name))
	if len(v) == 0 {
		return nil
	}
	var d struct {
		Benef keys.Address `json:"b"`
	}
	if json.Unmarshal(v, &d) != nil {
		return nil
	}
	return w.G.U.ByAddr(d.Benef)
}
