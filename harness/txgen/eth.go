package txgen

import (
	ethcrypto "github.com/ethereum/go-ethereum/crypto"

	"verif/sim"
)

func ethCompressed(e *sim.EthUser) []byte { return ethcrypto.CompressPubkey(&e.Key.PublicKey) }
