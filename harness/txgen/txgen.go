// Package txgen builds signed transactions of every kind the application routes.
package txgen

import (
	"math/big"
	"strconv"
	"strings"

	"github.com/ethereum/go-ethereum/accounts/abi"
	ethcmn "github.com/ethereum/go-ethereum/common"
	ethtypes "github.com/ethereum/go-ethereum/core/types"
	"github.com/ethereum/go-ethereum/rlp"

	"github.com/Oneledger/protocol/action"
	aeth "github.com/Oneledger/protocol/action/eth"
	aev "github.com/Oneledger/protocol/action/evidence"
	agov "github.com/Oneledger/protocol/action/governance"
	adeleg "github.com/Oneledger/protocol/action/network_delegation"
	aolvm "github.com/Oneledger/protocol/action/olvm"
	aons "github.com/Oneledger/protocol/action/ons"
	arew "github.com/Oneledger/protocol/action/rewards"
	astake "github.com/Oneledger/protocol/action/staking"
	"github.com/Oneledger/protocol/action/transfer"
	"github.com/Oneledger/protocol/chains/ethereum/contract"
	"github.com/Oneledger/protocol/data/balance"
	"github.com/Oneledger/protocol/data/governance"
	"github.com/Oneledger/protocol/data/keys"
	"github.com/Oneledger/protocol/data/ons"
	"github.com/Oneledger/protocol/serialize"
	"github.com/Oneledger/protocol/utils"

	"verif/sim"
)

// Tx is a materialised transaction plus the bookkeeping the harness keeps about it.
type Tx struct {
	Bytes   []byte   `json:"bytes"`
	Kind    string   `json:"kind"`
	Tags    []string `json:"tags,omitempty"`    // value-class tags of the arguments used
	Signers []string `json:"signers,omitempty"` // hex addresses of the keys that signed
	Note    string   `json:"note,omitempty"`
}

// Fee is the fee attached to generated transactions unless overridden.
type Fee struct {
	Price *big.Int
	Cur   string
	Gas   int64
}

func DefaultFee() Fee { return Fee{Price: big.NewInt(1000000000), Cur: "OLT", Gas: 2000000} }

func (f Fee) action() action.Fee {
	return action.Fee{Price: action.Amount{Currency: f.Cur, Value: *balance.NewAmountFromBigInt(f.Price)}, Gas: f.Gas}
}

type marshaler interface {
	Marshal() ([]byte, error)
}

// Amt builds an action.Amount.
func Amt(cur string, v *big.Int) action.Amount {
	return action.Amount{Currency: cur, Value: *balance.NewAmountFromBigInt(new(big.Int).Set(v))}
}

// Raw assembles the unsigned transaction.
func Raw(t action.Type, data []byte, fee Fee, memo string) action.RawTx {
	return action.RawTx{Type: t, Data: data, Fee: fee.action(), Memo: memo}
}

// SignRaw signs raw with each signer in order and serialises the signed transaction.
func SignRaw(raw action.RawTx, signers ...*sim.User) []byte {
	msg := raw.RawBytes()
	sigs := make([]action.Signature, 0, len(signers))
	for _, s := range signers {
		sigs = append(sigs, action.Signature{Signer: s.Pub, Signed: s.Sign(msg)})
	}
	stx := action.SignedTx{RawTx: raw, Signatures: sigs}
	b, err := serialize.GetSerializer(serialize.NETWORK).Serialize(stx)
	if err != nil {
		panic(err)
	}
	return b
}

// Build marshals msg, signs and packages it.
func Build(kind string, t action.Type, msg marshaler, fee Fee, memo string, signers ...*sim.User) Tx {
	data, err := msg.Marshal()
	if err != nil {
		panic(err)
	}
	tx := Tx{Bytes: SignRaw(Raw(t, data, fee, memo), signers...), Kind: kind}
	for _, s := range signers {
		tx.Signers = append(tx.Signers, s.Addr.String())
	}
	return tx
}

// ---- transfers ----

func Send(from *sim.User, fromAddr, to keys.Address, amt action.Amount, fee Fee, memo string) Tx {
	return Build("SEND", action.SEND, transfer.Send{From: fromAddr, To: to, Amount: amt}, fee, memo, from)
}

func SendPool(from *sim.User, fromAddr keys.Address, pool string, amt action.Amount, fee Fee, memo string) Tx {
	return Build("SENDPOOL", action.SENDPOOL, transfer.SendPool{From: fromAddr, PoolName: pool, Amount: amt}, fee, memo, from)
}

// ---- staking ----

func Stake(v *sim.Val, stakeAddr keys.Address, amt action.Amount, fee Fee, memo string, signers ...*sim.User) Tx {
	if len(signers) == 0 {
		signers = []*sim.User{v.Stake, v.Key}
	}
	return Build("STAKE", action.STAKE, astake.Stake{
		ValidatorAddress: v.Key.Addr, StakeAddress: stakeAddr, ValidatorPubKey: v.Key.Pub,
		ValidatorECDSAPubKey: v.EcdsaPub, NodeName: v.Name, Stake: amt,
	}, fee, memo, signers...)
}

func Unstake(valAddr, stakeAddr keys.Address, amt action.Amount, fee Fee, memo string, signers ...*sim.User) Tx {
	return Build("UNSTAKE", action.UNSTAKE, astake.Unstake{ValidatorAddress: valAddr, StakeAddress: stakeAddr, Stake: amt}, fee, memo, signers...)
}

func WithdrawStake(valAddr, stakeAddr keys.Address, amt action.Amount, fee Fee, memo string, signers ...*sim.User) Tx {
	return Build("WITHDRAW", action.WITHDRAW, astake.Withdraw{ValidatorAddress: valAddr, StakeAddress: stakeAddr, Stake: amt}, fee, memo, signers...)
}

func WithdrawReward(valAddr, signerAddr keys.Address, amt action.Amount, fee Fee, memo string, signer *sim.User) Tx {
	return Build("WITHDRAW_REWARD", action.WITHDRAW_REWARD, arew.Withdraw{ValidatorAddress: valAddr, SignerAddress: signerAddr, WithdrawAmount: amt}, fee, memo, signer)
}

// ---- network delegation ----

func Delegate(u *sim.User, addr keys.Address, amt action.Amount, fee Fee, memo string) Tx {
	return Build("ADD_NETWORK_DELEGATE", action.ADD_NETWORK_DELEGATE, adeleg.AddNetworkDelegation{DelegationAddress: addr, Amount: amt}, fee, memo, u)
}

func Undelegate(u *sim.User, addr keys.Address, amt action.Amount, fee Fee, memo string) Tx {
	return Build("NETWORK_UNDELEGATE", action.NETWORK_UNDELEGATE, &adeleg.Undelegate{Delegator: addr, Amount: amt}, fee, memo, u)
}

func DelegWithdrawRewards(u *sim.User, addr keys.Address, amt action.Amount, fee Fee, memo string) Tx {
	return Build("REWARDS_WITHDRAW_NETWORK_DELEGATE", action.REWARDS_WITHDRAW_NETWORK_DELEGATE, adeleg.Withdraw{Delegator: addr, Amount: amt}, fee, memo, u)
}

func DelegReinvest(u *sim.User, addr keys.Address, amt action.Amount, fee Fee, memo string) Tx {
	return Build("REWARDS_REINVEST_NETWORK_DELEGATE", action.REWARDS_REINVEST_NETWORK_DELEGATE, adeleg.Reinvest{Delegator: addr, Amount: amt}, fee, memo, u)
}

// ---- evidence ----

func Allegation(signer *sim.User, reqID string, reporter, malicious keys.Address, height int64, proof string, fee Fee, memo string) Tx {
	return Build("ALLEGATION", action.ALLEGATION, aev.Allegation{RequestID: reqID, ValidatorAddress: reporter, MaliciousAddress: malicious, BlockHeight: height, ProofMsg: proof}, fee, memo, signer)
}

func AllegationVote(signer *sim.User, reqID string, voter keys.Address, choice int8, fee Fee, memo string) Tx {
	return Build("ALLEGATION_VOTE", action.ALLEGATION_VOTE, aev.AllegationVote{RequestID: reqID, Address: voter, Choice: choice}, fee, memo, signer)
}

func Release(signer *sim.User, val keys.Address, fee Fee, memo string) Tx {
	return Build("RELEASE", action.RELEASE, aev.Release{ValidatorAddress: val}, fee, memo, signer)
}

// ---- domains ----

func DomainCreate(u *sim.User, owner, benef keys.Address, name, uri string, price action.Amount, fee Fee, memo string) Tx {
	return Build("DOMAIN_CREATE", action.DOMAIN_CREATE, aons.DomainCreate{Owner: owner, Beneficiary: benef, Name: ons.Name(name), Uri: uri, BuyingPrice: price}, fee, memo, u)
}

func DomainUpdate(u *sim.User, owner, benef keys.Address, name string, active bool, uri string, fee Fee, memo string) Tx {
	return Build("DOMAIN_UPDATE", action.DOMAIN_UPDATE, aons.DomainUpdate{Owner: owner, Beneficiary: benef, Name: ons.Name(name), Active: active, Uri: uri}, fee, memo, u)
}

func DomainSale(u *sim.User, owner keys.Address, name string, price action.Amount, cancel bool, fee Fee, memo string) Tx {
	return Build("DOMAIN_SELL", action.DOMAIN_SELL, aons.DomainSale{Name: ons.Name(name), OwnerAddress: owner, Price: price, CancelSale: cancel}, fee, memo, u)
}

func DomainPurchase(u *sim.User, buyer, account keys.Address, name string, offer action.Amount, fee Fee, memo string) Tx {
	return Build("DOMAIN_PURCHASE", action.DOMAIN_PURCHASE, aons.DomainPurchase{Name: ons.Name(name), Buyer: buyer, Account: account, Offering: offer}, fee, memo, u)
}

func DomainSend(u *sim.User, from keys.Address, name string, amt action.Amount, fee Fee, memo string) Tx {
	return Build("DOMAIN_SEND", action.DOMAIN_SEND, aons.DomainSend{From: from, Name: ons.Name(name), Amount: amt}, fee, memo, u)
}

func DomainRenew(u *sim.User, owner keys.Address, name string, price action.Amount, fee Fee, memo string) Tx {
	return Build("DOMAIN_RENEW", action.DOMAIN_RENEW, aons.RenewDomain{Owner: owner, Name: ons.Name(name), BuyingPrice: price}, fee, memo, u)
}

func DomainDeleteSub(u *sim.User, owner keys.Address, name string, fee Fee, memo string) Tx {
	return Build("DOMAIN_DELETE_SUB", action.DOMAIN_DELETE_SUB, aons.DeleteSub{Name: ons.Name(name), Owner: owner}, fee, memo, u)
}

// ---- governance ----

// ProposalID derives a 64-character id as the wallet does (hex of a sha256).
func ProposalID(seed string) governance.ProposalID {
	return governance.ProposalID(strings.ToLower(ethcmn.Bytes2Hex(utils.SHA2([]byte(seed)))))
}

func ProposalCreate(u *sim.User, m agov.CreateProposal, fee Fee, memo string) Tx {
	return Build("PROPOSAL_CREATE", action.PROPOSAL_CREATE, m, fee, memo, u)
}

func ProposalFund(u *sim.User, id governance.ProposalID, funder keys.Address, amt action.Amount, fee Fee, memo string) Tx {
	return Build("PROPOSAL_FUND", action.PROPOSAL_FUND, agov.FundProposal{ProposalId: id, FunderAddress: funder, FundValue: amt}, fee, memo, u)
}

func ProposalCancel(u *sim.User, id governance.ProposalID, proposer keys.Address, reason string, fee Fee, memo string) Tx {
	return Build("PROPOSAL_CANCEL", action.PROPOSAL_CANCEL, &agov.CancelProposal{ProposalId: id, Proposer: proposer, Reason: reason}, fee, memo, u)
}

func ProposalVote(id governance.ProposalID, addr, valAddr keys.Address, opinion governance.VoteOpinion, fee Fee, memo string, signers ...*sim.User) Tx {
	return Build("PROPOSAL_VOTE", action.PROPOSAL_VOTE, &agov.VoteProposal{ProposalID: id, Address: addr, ValidatorAddress: valAddr, Opinion: opinion}, fee, memo, signers...)
}

func ProposalWithdrawFunds(u *sim.User, id governance.ProposalID, funder, benef keys.Address, amt action.Amount, fee Fee, memo string) Tx {
	return Build("PROPOSAL_WITHDRAW_FUNDS", action.PROPOSAL_WITHDRAW_FUNDS, agov.WithdrawFunds{ProposalID: id, Funder: funder, WithdrawValue: amt, Beneficiary: benef}, fee, memo, u)
}

func ProposalFinalize(u *sim.User, id governance.ProposalID, valAddr keys.Address, fee Fee, memo string) Tx {
	return Build("PROPOSAL_FINALIZE", action.PROPOSAL_FINALIZE, agov.FinalizeProposal{ProposalID: id, ValidatorAddress: valAddr}, fee, memo, u)
}

func ExpireVotes(u *sim.User, id governance.ProposalID, valAddr keys.Address, fee Fee, memo string) Tx {
	return Build("EXPIRE_VOTES", action.EXPIRE_VOTES, agov.ExpireVotes{ProposalID: id, ValidatorAddress: valAddr}, fee, memo, u)
}

// ---- ethereum lock / redeem ----

var (
	lockRedeemABI, _    = abi.JSON(strings.NewReader(contract.LockRedeemABI))
	lockRedeemERCABI, _ = abi.JSON(strings.NewReader(contract.LockRedeemERCABI))
	erc20ABI, _         = abi.JSON(strings.NewReader(contract.ERC20BasicABI))
	ethChainID          = big.NewInt(4)
)

func signEth(e *sim.EthUser, nonce uint64, to *ethcmn.Address, value *big.Int, data []byte) []byte {
	var tx *ethtypes.Transaction
	if to == nil {
		tx = ethtypes.NewContractCreation(nonce, value, 300000, big.NewInt(18000000000), data)
	} else {
		tx = ethtypes.NewTransaction(nonce, *to, value, 300000, big.NewInt(18000000000), data)
	}
	stx, err := ethtypes.SignTx(tx, ethtypes.NewEIP155Signer(ethChainID), e.Key)
	if err != nil {
		panic(err)
	}
	b, err := rlp.EncodeToBytes(stx)
	if err != nil {
		panic(err)
	}
	return b
}

// EthLockRaw is a real signed ethereum transaction calling lock() on the LockRedeem contract.
func EthLockRaw(e *sim.EthUser, nonce uint64, to *ethcmn.Address, value *big.Int) []byte {
	data, err := lockRedeemABI.Pack("lock")
	if err != nil {
		panic(err)
	}
	return signEth(e, nonce, to, value, data)
}

// EthRedeemRaw calls redeem(amount) on the LockRedeem contract.
func EthRedeemRaw(e *sim.EthUser, nonce uint64, to *ethcmn.Address, amount *big.Int) []byte {
	data, err := lockRedeemABI.Pack("redeem", amount)
	if err != nil {
		panic(err)
	}
	return signEth(e, nonce, to, big.NewInt(0), data)
}

// ERC20LockRaw calls transfer(lockContract, amount) on the token contract.
func ERC20LockRaw(e *sim.EthUser, nonce uint64, token *ethcmn.Address, receiver ethcmn.Address, amount *big.Int) []byte {
	data, err := erc20ABI.Pack("transfer", receiver, amount)
	if err != nil {
		panic(err)
	}
	return signEth(e, nonce, token, big.NewInt(0), data)
}

// ERC20RedeemRaw calls redeem(amount, token) on the ERC lock contract.
func ERC20RedeemRaw(e *sim.EthUser, nonce uint64, to *ethcmn.Address, token ethcmn.Address, amount *big.Int) []byte {
	data, err := lockRedeemERCABI.Pack("redeem", amount, token)
	if err != nil {
		panic(err)
	}
	return signEth(e, nonce, to, big.NewInt(0), data)
}

// RawEth signs an arbitrary ethereum transaction.
func RawEth(e *sim.EthUser, nonce uint64, to *ethcmn.Address, value *big.Int, data []byte) []byte {
	return signEth(e, nonce, to, value, data)
}

func EthLock(u *sim.User, locker keys.Address, ethTx []byte, fee Fee, memo string) Tx {
	return Build("ETH_LOCK", action.ETH_LOCK, aeth.Lock{Locker: locker, ETHTxn: ethTx}, fee, memo, u)
}

func EthRedeem(u *sim.User, owner keys.Address, to ethcmn.Address, ethTx []byte, fee Fee, memo string) Tx {
	return Build("ETH_REDEEM", action.ETH_REDEEM, aeth.Redeem{Owner: owner, To: to, ETHTxn: ethTx}, fee, memo, u)
}

func ERC20Lock(u *sim.User, locker keys.Address, ethTx []byte, fee Fee, memo string) Tx {
	return Build("ERC20_LOCK", action.ERC20_LOCK, aeth.ERC20Lock{Locker: locker, ETHTxn: ethTx}, fee, memo, u)
}

func ERC20Redeem(u *sim.User, owner keys.Address, to ethcmn.Address, ethTx []byte, fee Fee, memo string) Tx {
	return Build("ERC20_REDEEM", action.ERC20_REDEEM, aeth.ERC20Redeem{Owner: owner, To: to, ETHTxn: ethTx}, fee, memo, u)
}

// TrackerName is the name the application derives for a lock/redeem tracker.
func TrackerName(ethTx []byte) ethcmn.Hash { return ethcmn.BytesToHash(ethTx) }

func ReportFinality(signer *sim.User, name ethcmn.Hash, locker, valAddr keys.Address, index int64, success bool, fee Fee, memo string) Tx {
	return Build("ETH_REPORT_FINALITY_MINT", action.ETH_REPORT_FINALITY_MINT, &aeth.ReportFinality{
		TrackerName: name, Locker: locker, ValidatorAddress: valAddr, VoteIndex: index, Success: success,
	}, fee, memo, signer)
}

// ---- OLVM ----

// OLVMChainID is the EIP-155 chain id the application derives from the chain id string.
func OLVMChainID(chainID string) *big.Int { return utils.HashToBigInt(chainID) }

// OLVM builds an EIP-155 signed OLVM transaction. memo defaults to the nonce; chain id to the chain's.
type OLVMArgs struct {
	ChainID   string
	Nonce     uint64
	To        *ethcmn.Address
	Value     *big.Int
	Data      []byte
	Fee       Fee
	Memo      *string  // nil => nonce
	SignChain *big.Int // nil => derived from ChainID
	MsgChain  *big.Int // nil => derived from ChainID
	FromAddr  *keys.Address
	Access    *ethtypes.AccessList // optional EIP-2930 access list carried in the payload (not covered by the legacy signature)
}

func OLVM(e *sim.EthUser, a OLVMArgs) Tx {
	cid := OLVMChainID(a.ChainID)
	signChain, msgChain := cid, cid
	if a.SignChain != nil {
		signChain = a.SignChain
	}
	if a.MsgChain != nil {
		msgChain = a.MsgChain
	}
	value := a.Value
	if value == nil {
		value = big.NewInt(0)
	}
	ethTx := ethtypes.NewTx(&ethtypes.LegacyTx{
		Nonce: a.Nonce, To: a.To, Value: value, Gas: uint64(a.Fee.Gas), GasPrice: a.Fee.Price, Data: a.Data,
	})
	signer := ethtypes.NewEIP155Signer(signChain)
	signed, err := ethtypes.SignTx(ethTx, signer, e.Key)
	if err != nil {
		panic(err)
	}
	v, r, s := signed.RawSignatureValues()
	// r||s||recid as WithSignature expects
	sig := make([]byte, 65)
	rb, sb := r.Bytes(), s.Bytes()
	copy(sig[32-len(rb):32], rb)
	copy(sig[64-len(sb):64], sb)
	recid := new(big.Int).Sub(v, new(big.Int).Add(new(big.Int).Mul(signChain, big.NewInt(2)), big.NewInt(35)))
	sig[64] = byte(recid.Uint64())

	from := e.OLAddr()
	if a.FromAddr != nil {
		from = *a.FromAddr
	}
	var to *action.Address
	if a.To != nil {
		t := action.Address(a.To.Bytes())
		to = &t
	}
	msg := aolvm.Transaction{
		Nonce: a.Nonce, From: from, To: to, Amount: Amt("OLT", value), Data: a.Data, ChainID: msgChain, AccessList: a.Access,
	}
	data, err := msg.Marshal()
	if err != nil {
		panic(err)
	}
	memo := strconv.FormatUint(a.Nonce, 10)
	if a.Memo != nil {
		memo = *a.Memo
	}
	raw := Raw(action.OLVM, data, a.Fee, memo)
	pub, _ := keys.GetPublicKeyFromBytes(ethCompressed(e), keys.ETHSECP)
	stx := action.SignedTx{RawTx: raw, Signatures: []action.Signature{{Signer: pub, Signed: sig}}}
	b, err := serialize.GetSerializer(serialize.NETWORK).Serialize(stx)
	if err != nil {
		panic(err)
	}
	return Tx{Bytes: b, Kind: "OLVM", Signers: []string{from.String()}}
}
