package txgen

import (
	"crypto/sha256"
	"encoding/hex"
	"strconv"

	"github.com/Oneledger/protocol/action"
	"github.com/Oneledger/protocol/data/keys"
	"github.com/Oneledger/protocol/external_apps/bid/bid_action"
	"github.com/Oneledger/protocol/external_apps/bid/bid_data"

	"verif/sim"
)

// ---- bid application (external_apps/bid) ----

// Bid asset types and decisions as the application registers them.
const (
	BidAssetOns     = int(bid_data.BidAssetOns)     // an ONS top-level domain
	BidAssetExample = int(bid_data.BidAssetExample) // the "example" asset: every name is available to everybody
	BidAccept       = int(bid_data.AcceptBid)
	BidReject       = int(bid_data.RejectBid)
)

// BidConvID is the id the application derives for a conversation created at the given height
// (sha256 of owner + asset name + bidder + height, hex).
func BidConvID(owner keys.Address, asset string, bidder keys.Address, height int64) string {
	s := sha256.Sum256([]byte(owner.String() + asset + bidder.String() + strconv.FormatInt(height, 10)))
	return hex.EncodeToString(s[:])
}

// BidCreate opens a conversation (convID == "") or adds an offer to an existing one (convID set).
func BidCreate(u *sim.User, convID string, owner keys.Address, asset string, assetType int, bidder keys.Address, amt action.Amount, deadline int64, fee Fee, memo string) Tx {
	return Build("BID_CREATE", bid_action.BID_CREATE, bid_action.CreateBid{
		BidConvId: bid_data.BidConvId(convID), AssetOwner: owner, AssetName: asset, AssetType: bid_data.BidAssetType(assetType),
		Bidder: bidder, Amount: amt, Deadline: deadline,
	}, fee, memo, u)
}

func BidCounterOffer(u *sim.User, convID string, owner keys.Address, amt action.Amount, fee Fee, memo string) Tx {
	return Build("BID_CONTER_OFFER", bid_action.BID_CONTER_OFFER, bid_action.CounterOffer{BidConvId: bid_data.BidConvId(convID), AssetOwner: owner, Amount: amt}, fee, memo, u)
}

func BidCancel(u *sim.User, convID string, bidder keys.Address, fee Fee, memo string) Tx {
	return Build("BID_CANCEL", bid_action.BID_CANCEL, bid_action.CancelBid{BidConvId: bid_data.BidConvId(convID), Bidder: bidder}, fee, memo, u)
}

func BidBidderDecision(u *sim.User, convID string, bidder keys.Address, decision int, fee Fee, memo string) Tx {
	return Build("BID_BIDDER_DECISION", bid_action.BID_BIDDER_DECISION, bid_action.BidderDecision{BidConvId: bid_data.BidConvId(convID), Bidder: bidder, Decision: bid_data.BidDecision(decision)}, fee, memo, u)
}

func BidOwnerDecision(u *sim.User, convID string, owner keys.Address, decision int, fee Fee, memo string) Tx {
	return Build("BID_OWNER_DECISION", bid_action.BID_OWNER_DECISION, bid_action.OwnerDecision{BidConvId: bid_data.BidConvId(convID), Owner: owner, Decision: bid_data.BidDecision(decision)}, fee, memo, u)
}

// BidExpire is the transaction the block beginner queues for itself; the router also accepts it from outside.
func BidExpire(u *sim.User, convID string, valAddr keys.Address, fee Fee, memo string) Tx {
	return Build("BID_EXPIRE", bid_action.BID_EXPIRE, bid_action.ExpireBid{BidConvId: bid_data.BidConvId(convID), ValidatorAddress: valAddr}, fee, memo, u)
}
