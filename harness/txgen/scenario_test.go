package txgen

import (
	"fmt"
	"math/big"
	"testing"

	ethcmn "github.com/ethereum/go-ethereum/common"

	agov "github.com/Oneledger/protocol/action/governance"
	"github.com/Oneledger/protocol/data/balance"
	"github.com/Oneledger/protocol/data/governance"

	"verif/sim"
)

func big10(s string) *big.Int { b, _ := new(big.Int).SetString(s, 10); return b }

func TestScenario(t *testing.T) {
	out := sim.Quiet()
	p := sim.DefaultParams()
	g := sim.BuildGenesis(p)
	c := sim.NewChain(g)
	r, err := sim.NewReplica("n0", g, c, sim.Role{ValIdx: 0, IsWitness: true}, "")
	if err != nil {
		t.Fatal(err)
	}
	defer r.Close()
	if err := c.SetInitialValidators(r.InitChain(c)); err != nil {
		t.Fatal(err)
	}
	fee := DefaultFee()
	u := g.U
	n := 0
	memo := func() string { n++; return fmt.Sprintf("m%d", n) }
	run := func(txs ...Tx) {
		var bs [][]byte
		for _, tx := range txs {
			ck := r.CheckTx(tx.Bytes)
			fmt.Fprintf(out, "  check %-34s code=%d log=%.120s\n", tx.Kind, ck.Code, ck.Log)
			bs = append(bs, tx.Bytes)
		}
		b := c.MakeBlock(sim.BlockSpec{GapSecs: 5, Txs: bs})
		br := r.RunBlock(b)
		for i, tr := range br.Txs {
			fmt.Fprintf(out, "h=%d deliver %-34s code=%d gas=%d/%d log=%.160s\n", b.Height, txs[i].Kind, tr.Code, tr.GasUsed, tr.GasWanted, tr.Log)
		}
		if err := c.Advance(br.AppHash, br.Updates); err != nil {
			fmt.Fprintf(out, "ADVANCE ERR %v\n", err)
		}
	}
	olt := func(whole int64) *big.Int { return new(big.Int).Mul(big.NewInt(whole), big10("1000000000000000000")) }
	a, b2 := u.Users[0], u.Users[1]
	run() // block 1
	run(Send(a, a.Addr, b2.Addr, Amt("OLT", olt(5)), fee, memo()),
		SendPool(a, a.Addr, "RewardsPool", Amt("OLT", olt(1000)), fee, memo()),
		Delegate(a, a.Addr, Amt("OLT", olt(100)), fee, memo()),
	)
	run(Undelegate(a, a.Addr, Amt("OLT", olt(40)), fee, memo()))
	v0, v4 := u.Vals[0], u.Vals[4]
	run(Stake(v4, v4.Stake.Addr, Amt("OLT", big.NewInt(3000005)), fee, memo()),
		Unstake(v0.Key.Addr, v0.Stake.Addr, Amt("OLT", big.NewInt(10)), fee, memo(), v0.Stake, v0.Key),
	)
	run()
	run()
	run()
	run(WithdrawStake(v0.Key.Addr, v0.Stake.Addr, Amt("OLT", big.NewInt(10)), fee, memo(), v0.Stake, v0.Key),
		WithdrawReward(v0.Key.Addr, v0.Stake.Addr, Amt("OLT", big.NewInt(1)), fee, memo(), v0.Stake),
		DelegWithdrawRewards(a, a.Addr, Amt("OLT", big.NewInt(1)), fee, memo()),
		DelegReinvest(a, a.Addr, Amt("OLT", big.NewInt(1)), fee, memo()),
	)
	// domains
	run(DomainCreate(a, a.Addr, a.Addr, "alice.ol", "http://a.b", Amt("OLT", olt(1001)), fee, memo()))
	run(DomainUpdate(a, a.Addr, b2.Addr, "alice.ol", true, "http://c.d", fee, memo()),
		DomainCreate(a, a.Addr, a.Addr, "sub.alice.ol", "http://a.b", Amt("OLT", olt(1001)), fee, memo()),
		DomainSend(b2, b2.Addr, "alice.ol", Amt("OLT", olt(1)), fee, memo()),
		DomainRenew(a, a.Addr, "alice.ol", Amt("OLT", olt(1)), fee, memo()),
	)
	run(DomainSale(a, a.Addr, "alice.ol", Amt("OLT", olt(10)), false, fee, memo()))
	run(DomainPurchase(b2, b2.Addr, b2.Addr, "alice.ol", Amt("OLT", olt(11)), fee, memo()))
	run(DomainDeleteSub(a, a.Addr, "sub.alice.ol", fee, memo()))
	// governance
	id := ProposalID("p1")
	goal := balance.NewAmountFromBigInt(big10(p.PropFundingGoal))
	run(ProposalCreate(a, agov.CreateProposal{ProposalID: id, ProposalType: governance.ProposalTypeGeneral, Headline: "h", Description: "d",
		Proposer: a.Addr, InitialFunding: Amt("OLT", big10(p.PropInitialFunding)), FundingDeadline: c.Height + 1 + p.PropFundingDL, FundingGoal: goal,
		VotingDeadline: c.Height + 1 + p.PropVotingDL, PassPercentage: p.PropPassPct}, fee, memo()))
	run(ProposalFund(b2, id, b2.Addr, Amt("OLT", big10(p.PropFundingGoal)), fee, memo()))
	var votes []Tx
	for i := 0; i < 3; i++ {
		v := u.Vals[i]
		votes = append(votes, ProposalVote(id, v.Stake.Addr, v.Key.Addr, governance.OPIN_POSITIVE, fee, memo(), v.Stake, v.Key))
	}
	run(votes...)
	run()
	run()
	// allegation
	run(Allegation(v0.Key, "req1", v0.Key.Addr, u.Vals[3].Key.Addr, 2, "proof", fee, memo()))
	run(AllegationVote(v0.Key, "req1", v0.Key.Addr, 1, fee, memo()), AllegationVote(u.Vals[1].Key, "req1", u.Vals[1].Key.Addr, 1, fee, memo()))
	run()
	run()
	run(Release(u.Vals[3].Key, u.Vals[3].Key.Addr, fee, memo()))
	// eth lock
	e0 := u.Eth[0]
	lockRaw := EthLockRaw(e0, 0, &sim.LockRedeemContract, big.NewInt(1000000))
	run(EthLock(a, a.Addr, lockRaw, fee, memo()))
	name := TrackerName(lockRaw)
	var reps []Tx
	for i := 0; i < 3; i++ {
		v := u.Vals[i]
		reps = append(reps, ReportFinality(v.Key, name, a.Addr, v.Key.Addr, int64(i), true, fee, memo()))
	}
	run(reps...)
	run()
	redeemRaw := EthRedeemRaw(e0, 1, &sim.LockRedeemContract, big.NewInt(500))
	run(EthRedeem(a, a.Addr, e0.Addr, redeemRaw, fee, memo()))
	// olvm
	to := ethcmn.HexToAddress("0x00000000000000000000000000000000000000aa")
	ofee := Fee{Price: big.NewInt(1000000000), Cur: "OLT", Gas: 100000}
	run(OLVM(e0, OLVMArgs{ChainID: p.ChainID, Nonce: 0, To: &to, Value: big.NewInt(12345), Fee: ofee}))
	code := ethcmn.FromHex("0x6005600c60003960056000f36001600055") // init: copy 5 bytes runtime; runtime: SSTORE(0,1)
	run(OLVM(e0, OLVMArgs{ChainID: p.ChainID, Nonce: 1, To: nil, Data: code, Fee: Fee{Price: big.NewInt(1000000000), Cur: "OLT", Gas: 200000}}))
	d := r.Dump()
	fmt.Fprintf(out, "keys=%d\n", len(d))
	for _, kv := range d {
		v := string(kv.V)
		if len(v) > 150 {
			v = v[:150] + "..."
		}
		fmt.Fprintf(out, "KEY %q = %q\n", kv.K, v)
	}
}
