// Package run is the glue between a property test and the supervisor: per-shard
// statistics, failure (replay) files, seeds and generator exclusions.
package run

import (
	"crypto/sha256"
	"encoding/hex"
	"encoding/json"
	"fmt"
	"os"
	"path/filepath"
	"sort"
	"strconv"
	"strings"
	"sync"
	"testing"
)

// Failure is the replay file format: a self-contained description of a violating case.
type Failure struct {
	Property string          `json:"property"`
	Test     string          `json:"test"`
	Oracle   string          `json:"oracle"`    // which oracle fired
	Message  string          `json:"message"`   // human readable
	Sig      string          `json:"signature"` // stable signature matched against known findings
	Case     json.RawMessage `json:"case"`      // the replayable input (trace)
}

// Stats is what a shard reports.
type Stats struct {
	Property    string         `json:"property"`
	Test        string         `json:"test"`
	Evaluations int            `json:"evaluations"`
	NonTrivial  []string       `json:"nontrivial"` // distinct non-trivial case signatures (hashes)
	Classes     map[string]int `json:"classes"`
	Samples     []interface{}  `json:"samples"`
	Excluded    map[string]int `json:"excluded"`
	Exhaustive  bool           `json:"exhaustive,omitempty"`
	Rule        string         `json:"rule,omitempty"`
	Notes       []string       `json:"notes,omitempty"`
}

type H struct {
	mu       sync.Mutex
	Prop     string
	Test     string
	OutDir   string
	Seed     int64
	Tier     string
	st       Stats
	nt       map[string]bool
	maxSamp  int
	excluded map[string]bool
}

// Start initialises the per-test harness handle from the environment.
func Start(t testing.TB, prop string) *H {
	h := &H{Prop: prop, Test: t.Name(), nt: map[string]bool{}, maxSamp: 4, excluded: map[string]bool{}}
	h.OutDir = os.Getenv("VERIF_OUT")
	h.Tier = os.Getenv("VERIF_TIER")
	if h.Tier == "" {
		h.Tier = "quick"
	}
	h.Seed, _ = strconv.ParseInt(os.Getenv("VERIF_SEED"), 10, 64)
	for _, e := range strings.Split(os.Getenv("VERIF_EXCLUDE"), ",") {
		if e = strings.TrimSpace(e); e != "" {
			h.excluded[e] = true
		}
	}
	h.st = Stats{Property: prop, Test: t.Name(), Classes: map[string]int{}, Excluded: map[string]int{}}
	return h
}

// Thorough reports whether the thorough tier is running.
func (h *H) Thorough() bool { return h.Tier == "thorough" }

// Scale returns q in the quick tier and th in the thorough tier.
func (h *H) Scale(q, th int) int {
	if h.Thorough() {
		return th
	}
	return q
}

// Excluded reports whether a known-finding exclusion is active, and counts the excluded draw.
func (h *H) Excluded(tag string) bool {
	if h.excluded[tag] {
		h.mu.Lock()
		h.st.Excluded[tag]++
		h.mu.Unlock()
		return true
	}
	return false
}

// IsExcluded is Excluded without counting.
func (h *H) IsExcluded(tag string) bool { return h.excluded[tag] }

// Eval counts one executed case. ntKey is the distinctness key of the case when it is
// non-trivial by the property's rule ("" when trivial).
func (h *H) Eval(ntKey string, classes []string, sample interface{}) {
	h.mu.Lock()
	defer h.mu.Unlock()
	h.st.Evaluations++
	if ntKey != "" {
		s := sha256.Sum256([]byte(ntKey))
		k := hex.EncodeToString(s[:8])
		if !h.nt[k] {
			h.nt[k] = true
			if len(h.st.Samples) < h.maxSamp && sample != nil {
				h.st.Samples = append(h.st.Samples, sample)
			}
		}
	}
	for _, c := range classes {
		h.st.Classes[c]++
	}
}

// Class bumps a class counter without counting a case.
func (h *H) Class(c string, n int) {
	h.mu.Lock()
	h.st.Classes[c] += n
	h.mu.Unlock()
}

func (h *H) Sample(s interface{}) {
	h.mu.Lock()
	if len(h.st.Samples) < h.maxSamp {
		h.st.Samples = append(h.st.Samples, s)
	}
	h.mu.Unlock()
}

func (h *H) SetRule(r string)     { h.st.Rule = r }
func (h *H) SetExhaustive(b bool) { h.st.Exhaustive = b }
func (h *H) Note(n string)        { h.mu.Lock(); h.st.Notes = append(h.st.Notes, n); h.mu.Unlock() }

// Finish writes the shard statistics.
func (h *H) Finish() {
	h.mu.Lock()
	defer h.mu.Unlock()
	h.st.NonTrivial = h.st.NonTrivial[:0]
	for k := range h.nt {
		h.st.NonTrivial = append(h.st.NonTrivial, k)
	}
	sort.Strings(h.st.NonTrivial)
	if h.OutDir == "" {
		return
	}
	b, _ := json.Marshal(h.st)
	_ = os.WriteFile(filepath.Join(h.OutDir, "stats.json"), b, 0o644)
}

// fataler is satisfied by *testing.T and *rapid.T.
type fataler interface {
	Fatalf(format string, args ...interface{})
}

// Fail records a violation (replay file) and fails the test. When rapid shrinks, every
// failing re-run overwrites the file, so the file left at the end is the minimal case.
func (h *H) Fail(t fataler, oracle, sig string, c interface{}, format string, args ...interface{}) {
	msg := fmt.Sprintf(format, args...)
	h.WriteFailure(oracle, sig, c, msg)
	t.Fatalf("[%s/%s] %s", h.Prop, oracle, msg)
}

func (h *H) WriteFailure(oracle, sig string, c interface{}, msg string) {
	cb, err := json.Marshal(c)
	if err != nil {
		cb, _ = json.Marshal(fmt.Sprintf("unmarshalable case: %v", err))
	}
	f := Failure{Property: h.Prop, Test: h.Test, Oracle: oracle, Message: msg, Sig: sig, Case: cb}
	b, _ := json.MarshalIndent(f, "", " ")
	if h.OutDir != "" {
		_ = os.WriteFile(filepath.Join(h.OutDir, "fail.json"), b, 0o644)
	}
}

// Journal writes the in-flight case before it executes, so that a process death
// (os.Exit from the code under test) still leaves a replayable input.
func (h *H) Journal(c interface{}) {
	if h.OutDir == "" {
		return
	}
	b, err := json.Marshal(c)
	if err != nil {
		return
	}
	_ = os.WriteFile(filepath.Join(h.OutDir, "journal.json"), b, 0o644)
}

// ReplayFile returns the file a replay test should execute ("" when not replaying).
func ReplayFile() string { return os.Getenv("VERIF_REPLAY") }

// LoadFailure reads a replay file.
func LoadFailure(path string) (*Failure, error) {
	b, err := os.ReadFile(path)
	if err != nil {
		return nil, err
	}
	f := &Failure{}
	if err := json.Unmarshal(b, f); err != nil {
		return nil, err
	}
	return f, nil
}

// EnvInt reads an integer from the environment.
func EnvInt(name string, def int) int {
	if v, err := strconv.Atoi(os.Getenv(name)); err == nil {
		return v
	}
	return def
}

// Shard returns (index, count) of this process among the shards of an enumerating test.
func Shard() (int, int) {
	n := EnvInt("VERIF_SHARDS", 1)
	if n < 1 {
		n = 1
	}
	i := EnvInt("VERIF_SHARD", 0)
	if i < 0 || i >= n {
		i = 0
	}
	return i, n
}
