package run

import (
	"os"
	"sync"
	"syscall"
)

var (
	quietOnce sync.Once
	origOut   *os.File
)

// Quiet redirects the process's fd 1 to /dev/null (the code under test logs to the real
// stdout from package-level loggers captured at init) and returns the original stdout.
func Quiet() *os.File {
	quietOnce.Do(func() {
		if os.Getenv("VERIF_LOUD") != "" {
			origOut = os.Stdout
			return
		}
		fd, err := syscall.Dup(1)
		if err != nil {
			origOut = os.Stdout
			return
		}
		origOut = os.NewFile(uintptr(fd), "stdout-orig")
		null, err := os.OpenFile("/dev/null", os.O_WRONLY, 0)
		if err != nil {
			return
		}
		_ = syscall.Dup2(int(null.Fd()), 1)
	})
	return origOut
}
