// Command check is the supervisor behind /verif/check: it rebuilds a property's test
// binary from /repo's working tree, runs the replay tier and the search tier in shards,
// merges statistics into the evidence file and maps outcomes to exit codes
// (0 held, 1 violation, 2 infrastructure / inconclusive). It does not import /repo.
package main

import (
	"bytes"
	"context"
	"encoding/json"
	"fmt"
	"io"
	"os"
	"os/exec"
	"path/filepath"
	"sort"
	"strconv"
	"strings"
	"sync"
	"time"
)

var root = envOr("VERIF_ROOT", "/verif")

func envOr(k, d string) string {
	if v := os.Getenv(k); v != "" {
		return v
	}
	return d
}

type TierCfg struct {
	Checks   int               `json:"checks,omitempty"`   // rapid checks per shard
	Shards   int               `json:"shards,omitempty"`   // processes
	FuzzTime string            `json:"fuzztime,omitempty"` // native fuzz budget
	Env      map[string]string `json:"env,omitempty"`
	Timeout  int               `json:"timeout_s,omitempty"` // wall guard per shard
}

type TestCfg struct {
	Name     string   `json:"name"`
	Kind     string   `json:"kind"` // rapid | enum | plain | fuzz
	Quick    *TierCfg `json:"quick,omitempty"`
	Thorough *TierCfg `json:"thorough,omitempty"`
}

type PropCfg struct {
	Pkg         string    `json:"pkg"`
	Level       string    `json:"level"`
	Tests       []TestCfg `json:"tests"`
	Assumptions []string  `json:"assumptions,omitempty"`
	Rule        string    `json:"rule,omitempty"`
}

type Finding struct {
	Property   string `json:"property"`
	ID         string `json:"id"`
	What       string `json:"what"`
	Signature  string `json:"signature"`
	Witness    string `json:"witness"`
	ExcludedBy string `json:"excluded_by,omitempty"`
}

type Fixed struct {
	Property string `json:"property"`
	Commit   string `json:"commit"`
	What     string `json:"what"`
	Witness  string `json:"witness,omitempty"`
}

type Known struct {
	Findings []Finding `json:"findings"`
	Fixed    []Fixed   `json:"fixed"`
}

type Failure struct {
	Property string          `json:"property"`
	Test     string          `json:"test"`
	Oracle   string          `json:"oracle"`
	Message  string          `json:"message"`
	Sig      string          `json:"signature"`
	Case     json.RawMessage `json:"case"`
}

type Stats struct {
	Property    string         `json:"property"`
	Test        string         `json:"test"`
	Evaluations int            `json:"evaluations"`
	NonTrivial  []string       `json:"nontrivial"`
	Classes     map[string]int `json:"classes"`
	Samples     []interface{}  `json:"samples"`
	Excluded    map[string]int `json:"excluded"`
	Exhaustive  bool           `json:"exhaustive,omitempty"`
	Rule        string         `json:"rule,omitempty"`
	Notes       []string       `json:"notes,omitempty"`
}

var stdout io.Writer = os.Stdout

func say(format string, a ...interface{}) { fmt.Fprintf(stdout, format+"\n", a...) }

func goEnv() []string {
	env := os.Environ()
	env = append(env, "GOFLAGS=-mod=mod", "GOPROXY=off", "GOSUMDB=off", "GOTOOLCHAIN=local", "CGO_ENABLED=1")
	return env
}

func loadJSON(path string, v interface{}) error {
	b, err := os.ReadFile(path)
	if err != nil {
		return err
	}
	return json.Unmarshal(b, v)
}

func main() {
	if len(os.Args) < 3 {
		fmt.Fprintln(os.Stderr, "usage: check <ID> quick|thorough | check <ID> --replay <file>")
		os.Exit(2)
	}
	id := os.Args[1]
	mode := os.Args[2]
	// per-property configuration lives next to the property's package
	cfg := PropCfg{}
	if err := loadJSON(filepath.Join(root, "harness", "props", strings.ToLower(id), "check.json"), &cfg); err != nil {
		fmt.Fprintln(os.Stderr, "unknown property or bad check.json for", id, ":", err)
		os.Exit(2)
	}
	if cfg.Pkg == "" {
		cfg.Pkg = "./props/" + strings.ToLower(id)
	}
	known := Known{}
	_ = loadJSON(filepath.Join(root, "known_findings.json"), &known)

	start := time.Now()
	bin, err := build(id, cfg)
	if err != nil {
		say("BUILD-FAILED property=%s: %v", id, err)
		os.Exit(2)
	}
	say("built %s in %.1fs", filepath.Base(bin), time.Since(start).Seconds())

	if mode == "--replay" {
		if len(os.Args) < 4 {
			os.Exit(2)
		}
		rc := replayOne(id, bin, os.Args[3], known)
		cleanScratch()
		os.Exit(rc)
	}
	if mode != "quick" && mode != "thorough" {
		fmt.Fprintln(os.Stderr, "mode must be quick or thorough")
		os.Exit(2)
	}
	rc := runTier(id, cfg, bin, mode, known, start)
	cleanScratch()
	os.Exit(rc)
}

// build compiles the property's test binary against /repo's current working tree.
func build(id string, cfg PropCfg) (string, error) {
	outDir := filepath.Join(root, ".build")
	_ = os.MkdirAll(outDir, 0o755)
	bin := filepath.Join(outDir, strings.ToLower(id)+".test")
	// go.sum of the harness must contain the repository's sums
	if b, err := os.ReadFile(filepath.Join(envOr("VERIF_REPO", "/repo"), "go.sum")); err == nil {
		hs := filepath.Join(root, "harness", "go.sum")
		if cur, err2 := os.ReadFile(hs); err2 != nil || len(cur) == 0 {
			_ = os.WriteFile(hs, b, 0o644)
		}
	}
	cmd := exec.Command("go", "test", "-c", "-tags", "verif", "-ldflags=-checklinkname=0", "-o", bin, cfg.Pkg)
	cmd.Dir = filepath.Join(root, "harness")
	cmd.Env = goEnv()
	out, err := cmd.CombinedOutput()
	if err != nil {
		return "", fmt.Errorf("%v\n%s", err, tail(string(out), 40))
	}
	return bin, nil
}

func tail(s string, n int) string {
	lines := strings.Split(strings.TrimRight(s, "\n"), "\n")
	if len(lines) > n {
		lines = lines[len(lines)-n:]
	}
	return strings.Join(lines, "\n")
}

type shardResult struct {
	test     TestCfg
	shard    int
	dir      string
	exit     int
	timedOut bool
	out      string
	stats    *Stats
	fail     *Failure
	journal  []byte
	dur      time.Duration
}

func seedFor(base int64, testIdx, shard int) int64 {
	v := (base*1000003 + int64(shard)*7919 + int64(testIdx)*104729) % 9223372036854775783
	if v < 0 {
		v = -v
	}
	return v + 1
}

func runProc(bin string, args []string, env []string, dir string, timeout time.Duration) (int, bool, string) {
	ctx, cancel := context.WithTimeout(context.Background(), timeout)
	defer cancel()
	cmd := exec.CommandContext(ctx, bin, args...)
	cmd.Dir = dir
	cmd.Env = env
	var buf bytes.Buffer
	cmd.Stdout = &buf
	cmd.Stderr = &buf
	err := cmd.Run()
	if ctx.Err() == context.DeadlineExceeded {
		return -1, true, buf.String()
	}
	if err != nil {
		if ee, ok := err.(*exec.ExitError); ok {
			return ee.ExitCode(), false, buf.String()
		}
		return -2, false, buf.String() + "\n" + err.Error()
	}
	return 0, false, buf.String()
}

func baseEnv(id, tier string, seed int64, outDir string, known Known, extra map[string]string) []string {
	env := goEnv()
	var ex []string
	for _, f := range known.Findings {
		if f.Property == id && f.ExcludedBy != "" {
			ex = append(ex, f.ExcludedBy)
		}
	}
	// exclusions owned by other properties also apply (a crashing input is excluded everywhere)
	for _, f := range known.Findings {
		if f.Property != id && f.ExcludedBy != "" {
			ex = append(ex, f.ExcludedBy)
		}
	}
	env = append(env,
		"VERIF_TIER="+tier,
		"VERIF_SEED="+strconv.FormatInt(seed, 10),
		"VERIF_OUT="+outDir,
		"VERIF_EXCLUDE="+strings.Join(ex, ","),
		"VERIF_SCRATCH="+scratchRoot(),
	)
	for k, v := range extra {
		env = append(env, k+"="+v)
	}
	return env
}

var runScratch string

// scratchRoot returns a scratch directory private to this supervisor run (removed at the end).
func scratchRoot() string {
	if runScratch != "" {
		return runScratch
	}
	base := os.Getenv("VERIF_SCRATCH")
	if base == "" {
		if st, err := os.Stat("/dev/shm"); err == nil && st.IsDir() {
			base = "/dev/shm"
		} else {
			base = os.TempDir()
		}
	}
	d, err := os.MkdirTemp(base, "verif-run-")
	if err != nil {
		return base
	}
	runScratch = d
	return d
}

func cleanScratch() {
	if runScratch != "" {
		_ = os.RemoveAll(runScratch)
	}
}

func runTier(id string, cfg PropCfg, bin, tier string, known Known, start time.Time) int {
	seed, _ := strconv.ParseInt(os.Getenv("VERIF_SEED"), 10, 64)
	work := filepath.Join(root, ".work", id, tier)
	_ = os.RemoveAll(work)
	_ = os.MkdirAll(work, 0o755)

	exit := 0
	violations := 0
	var knownLines []string
	inconclusive := []string{}

	// ---- replay tier ----
	replayDir := filepath.Join(root, "replays", id)
	files, _ := filepath.Glob(filepath.Join(replayDir, "*.json"))
	sort.Strings(files)
	witnessOf := map[string]*Finding{}
	for i := range known.Findings {
		f := &known.Findings[i]
		if f.Property == id && f.Witness != "" {
			witnessOf[filepath.Join(root, f.Witness)] = f
		}
	}
	replayed := 0
	for _, file := range files {
		dir := filepath.Join(work, "replay-"+strings.TrimSuffix(filepath.Base(file), ".json"))
		_ = os.MkdirAll(dir, 0o755)
		env := baseEnv(id, tier, seed, dir, Known{}, map[string]string{"VERIF_REPLAY": file})
		code, to, out := runProc(bin, []string{"-test.run", "^TestReplay$", "-test.count=1", "-test.timeout=600s"}, env, dir, 700*time.Second)
		replayed++
		kf := witnessOf[file]
		switch {
		case to:
			inconclusive = append(inconclusive, "replay timeout "+file)
		case code == 0:
			if kf != nil {
				say("NOTE: known finding %s no longer reproduces from its witness %s", kf.ID, kf.Witness)
			}
		default:
			if kf != nil {
				knownLines = append(knownLines, fmt.Sprintf("KNOWN-FINDING: property=%s %s", id, kf.What))
			} else if _, err := os.Stat(filepath.Join(dir, "fail.json")); err == nil || strings.Contains(out, "--- FAIL") || code != 0 {
				violations++
				say("VIOLATION property=%s replay=%s", id, file)
				say("%s", tail(out, 12))
				exit = 1
			}
		}
	}

	// ---- search tier ----
	var jobs []shardResult
	for ti, t := range cfg.Tests {
		tc := t.Quick
		if tier == "thorough" {
			tc = t.Thorough
			if tc == nil && t.Kind != "fuzz" {
				tc = t.Quick
			}
		}
		if tc == nil {
			continue
		}
		shards := tc.Shards
		if shards < 1 {
			shards = 1
		}
		for s := 0; s < shards; s++ {
			_ = ti
			jobs = append(jobs, shardResult{test: t, shard: s})
		}
	}
	results := make([]shardResult, len(jobs))
	var wg sync.WaitGroup
	sem := make(chan struct{}, 16)
	for ji := range jobs {
		wg.Add(1)
		go func(ji int) {
			defer wg.Done()
			sem <- struct{}{}
			defer func() { <-sem }()
			j := jobs[ji]
			t := j.test
			ti := 0
			for k, tt := range cfg.Tests {
				if tt.Name == t.Name {
					ti = k
				}
			}
			tc := t.Quick
			if tier == "thorough" && t.Thorough != nil {
				tc = t.Thorough
			}
			shards := tc.Shards
			if shards < 1 {
				shards = 1
			}
			dir := filepath.Join(work, fmt.Sprintf("%s-%d", t.Name, j.shard))
			_ = os.MkdirAll(dir, 0o755)
			_ = os.RemoveAll(filepath.Join(dir, "testdata"))
			extra := map[string]string{"VERIF_SHARD": strconv.Itoa(j.shard), "VERIF_SHARDS": strconv.Itoa(shards)}
			for k, v := range tc.Env {
				extra[k] = v
			}
			env := baseEnv(id, tier, seed, dir, known, extra)
			timeout := time.Duration(tc.Timeout) * time.Second
			if timeout == 0 {
				if tier == "quick" {
					timeout = 15 * time.Minute
				} else {
					timeout = 90 * time.Minute
				}
			}
			var args []string
			switch t.Kind {
			case "rapid":
				args = []string{"-test.run", "^" + t.Name + "$", "-test.count=1", "-test.timeout=0",
					"-rapid.checks=" + strconv.Itoa(tc.Checks),
					"-rapid.seed=" + strconv.FormatInt(seedFor(seed, ti, j.shard), 10),
					"-rapid.failfile=" + filepath.Join(dir, "rapid.fail"),
					"-rapid.shrinktime=45s"}
			case "fuzz":
				// native fuzzing needs the coverage-instrumented build the go command makes itself
				args = []string{"test", "-tags", "verif", "-ldflags=-checklinkname=0", "-run", "^$", "-fuzz", "^" + t.Name + "$",
					"-fuzztime", tc.FuzzTime, "-timeout", "0", cfg.Pkg}
			default: // enum, plain
				args = []string{"-test.run", "^" + t.Name + "$", "-test.count=1", "-test.timeout=0"}
			}
			t0 := time.Now()
			prog, pdir := bin, dir
			if t.Kind == "fuzz" {
				prog, pdir = "go", filepath.Join(root, "harness")
			}
			code, to, out := runProc(prog, args, env, pdir, timeout)
			r := shardResult{test: t, shard: j.shard, dir: dir, exit: code, timedOut: to, out: out, dur: time.Since(t0)}
			st := &Stats{}
			if err := loadJSON(filepath.Join(dir, "stats.json"), st); err == nil {
				r.stats = st
			}
			fl := &Failure{}
			if err := loadJSON(filepath.Join(dir, "fail.json"), fl); err == nil {
				r.fail = fl
			}
			if b, err := os.ReadFile(filepath.Join(dir, "journal.json")); err == nil {
				r.journal = b
			}
			results[ji] = r
		}(ji)
	}
	wg.Wait()

	outDir := filepath.Join(root, "replays-out")
	var harnessNotes []string
	for _, r := range results {
		switch {
		case r.timedOut:
			inconclusive = append(inconclusive, fmt.Sprintf("%s shard %d: wall-clock guard hit", r.test.Name, r.shard))
		case r.exit == 0:
			if r.test.Kind == "rapid" {
				// rapid prints "OK, passed N tests" — nothing else to check; stats tell the count
			}
		case r.fail != nil && r.fail.Oracle == "harness":
			// the harness could not set a case up (for instance a data-directory copy that kept racing the database's
			// background compaction): never a verdict about the code. The case is re-executed in a fresh child: a real
			// oracle firing there is reported, a harness failure that repeats is inconclusive, a pass is only noted.
			_ = os.MkdirAll(outDir, 0o755)
			dst := filepath.Join(outDir, fmt.Sprintf("%s-%s-%d-s%d-harness.json", id, r.test.Name, seed, r.shard))
			b, _ := json.MarshalIndent(r.fail, "", " ")
			_ = os.WriteFile(dst, b, 0o644)
			dir := filepath.Join(work, fmt.Sprintf("harness-%s-%d", r.test.Name, r.shard))
			_ = os.MkdirAll(dir, 0o755)
			env := baseEnv(id, tier, seed, dir, Known{}, map[string]string{"VERIF_REPLAY": dst})
			code, to, out := runProc(bin, []string{"-test.run", "^TestReplay$", "-test.count=1", "-test.timeout=600s"}, env, dir, 700*time.Second)
			fl := &Failure{}
			again := loadJSON(filepath.Join(dir, "fail.json"), fl) == nil
			switch {
			case !to && code != 0 && again && fl.Oracle != "harness":
				if kf := matchKnown(known, id, fl.Sig); kf != nil {
					knownLines = append(knownLines, fmt.Sprintf("KNOWN-FINDING: property=%s %s", id, kf.What))
					_ = os.Remove(dst)
					continue
				}
				b, _ := json.MarshalIndent(fl, "", " ")
				_ = os.WriteFile(dst, b, 0o644)
				violations++
				exit = 1
				say("VIOLATION property=%s replay=%s", id, dst)
				say("  oracle=%s: %s", fl.Oracle, trunc(fl.Message, 600))
			case !to && code == 0:
				_ = os.Remove(dst)
				harnessNotes = append(harnessNotes, fmt.Sprintf("%s shard %d: one case could not be set up (%s); it passed when re-executed; the shard stopped at that case", r.test.Name, r.shard, trunc(r.fail.Message, 160)))
			default:
				inconclusive = append(inconclusive, fmt.Sprintf("%s shard %d: harness failure that repeats on replay (%s): %s", r.test.Name, r.shard, dst, trunc(r.fail.Message+" / "+tail(out, 3), 400)))
			}
		case r.fail != nil:
			// an oracle fired
			if kf := matchKnown(known, id, r.fail.Sig); kf != nil {
				knownLines = append(knownLines, fmt.Sprintf("KNOWN-FINDING: property=%s %s", id, kf.What))
				continue
			}
			_ = os.MkdirAll(outDir, 0o755)
			dst := filepath.Join(outDir, fmt.Sprintf("%s-%s-%d-s%d.json", id, r.test.Name, seed, r.shard))
			b, _ := json.MarshalIndent(r.fail, "", " ")
			_ = os.WriteFile(dst, b, 0o644)
			violations++
			exit = 1
			say("VIOLATION property=%s replay=%s", id, dst)
			say("  oracle=%s: %s", r.fail.Oracle, trunc(r.fail.Message, 600))
		case r.test.Kind == "fuzz" && strings.Contains(r.out, "Failing input written to"):
			// native fuzz crasher: keep the input file
			_ = os.MkdirAll(outDir, 0o755)
			dst := filepath.Join(outDir, fmt.Sprintf("%s-%s-%d-fuzz.txt", id, r.test.Name, seed))
			src := findFuzzCrasher(filepath.Join(root, "harness", cfg.Pkg), r.test.Name)
			if src != "" {
				// move it out of the package's testdata so that it does not fail later builds' seed runs
				_ = exec.Command("mv", src, dst).Run()
			}
			violations++
			exit = 1
			say("VIOLATION property=%s replay=%s", id, dst)
			say("%s", tail(r.out, 15))
		case r.journal != nil:
			// the process died without an oracle verdict: reproduce from the journal in a fresh child
			_ = os.MkdirAll(outDir, 0o755)
			f := Failure{Property: id, Test: r.test.Name, Oracle: "node-died", Message: "process died while executing this case: " + trunc(tail(r.out, 6), 500),
				Sig: id + "/node-died", Case: r.journal}
			b, _ := json.MarshalIndent(f, "", " ")
			dst := filepath.Join(outDir, fmt.Sprintf("%s-%s-%d-s%d-died.json", id, r.test.Name, seed, r.shard))
			_ = os.WriteFile(dst, b, 0o644)
			dir := filepath.Join(work, fmt.Sprintf("died-%s-%d", r.test.Name, r.shard))
			_ = os.MkdirAll(dir, 0o755)
			env := baseEnv(id, tier, seed, dir, Known{}, map[string]string{"VERIF_REPLAY": dst})
			code, to, out := runProc(bin, []string{"-test.run", "^TestReplay$", "-test.count=1", "-test.timeout=600s"}, env, dir, 700*time.Second)
			if !to && code != 0 {
				fl := &Failure{}
				sigv := f.Sig
				if err := loadJSON(filepath.Join(dir, "fail.json"), fl); err == nil {
					sigv = fl.Sig
				}
				if kf := matchKnown(known, id, sigv); kf != nil {
					knownLines = append(knownLines, fmt.Sprintf("KNOWN-FINDING: property=%s %s", id, kf.What))
					_ = os.Remove(dst)
					continue
				}
				violations++
				exit = 1
				say("VIOLATION property=%s replay=%s", id, dst)
				say("  node died / case failed again on replay: %s", trunc(tail(out, 8), 800))
			} else {
				_ = os.Remove(dst)
				inconclusive = append(inconclusive, fmt.Sprintf("%s shard %d died (exit %d) and the journal did not reproduce: %s", r.test.Name, r.shard, r.exit, trunc(tail(r.out, 5), 400)))
			}
		default:
			inconclusive = append(inconclusive, fmt.Sprintf("%s shard %d exited %d without a verdict: %s", r.test.Name, r.shard, r.exit, trunc(tail(r.out, 8), 600)))
		}
	}

	// ---- evidence ----
	ev := mergeEvidence(id, cfg, tier, seed, results, replayed, knownLines, violations, inconclusive, time.Since(start))
	_ = os.MkdirAll(filepath.Join(root, "evidence"), 0o755)
	eb, _ := json.MarshalIndent(ev, "", " ")
	_ = os.WriteFile(filepath.Join(root, "evidence", id+".json"), eb, 0o644)

	seen := map[string]bool{}
	for _, l := range knownLines {
		if !seen[l] {
			say("%s", l)
			seen[l] = true
		}
	}
	for _, n := range harnessNotes {
		say("note: %s", n)
	}
	cov := ev["coverage"].(map[string]interface{})
	say("property=%s tier=%s seed=%d evaluations=%v distinct_nontrivial=%v violations=%d wall=%.1fs", id, tier, seed, cov["evaluations"], cov["distinct_nontrivial"], violations, time.Since(start).Seconds())
	if exit == 1 {
		return 1
	}
	if len(inconclusive) > 0 {
		for _, s := range inconclusive {
			say("INCONCLUSIVE: %s", s)
		}
		return 2
	}
	return 0
}

func trunc(s string, n int) string {
	if len(s) > n {
		return s[:n] + "…"
	}
	return s
}

func findFuzzCrasher(dir, name string) string {
	m, _ := filepath.Glob(filepath.Join(dir, "testdata", "fuzz", name, "*"))
	var newest string
	var nt time.Time
	for _, f := range m {
		if st, err := os.Stat(f); err == nil && st.ModTime().After(nt) {
			newest, nt = f, st.ModTime()
		}
	}
	return newest
}

func matchKnown(k Known, id, sig string) *Finding {
	for i := range k.Findings {
		f := &k.Findings[i]
		if f.Property == id && f.Signature != "" && (sig == f.Signature || strings.HasPrefix(sig, f.Signature)) {
			return f
		}
	}
	return nil
}

func mergeEvidence(id string, cfg PropCfg, tier string, seed int64, results []shardResult, replayed int, knownLines []string, violations int, inconclusive []string, wall time.Duration) map[string]interface{} {
	evals := 0
	nt := map[string]bool{}
	classes := map[string]int{}
	excluded := map[string]int{}
	var samples []interface{}
	var rules []string
	var notes []string
	perTest := map[string]map[string]interface{}{}
	exhaustive := false
	seenRule := map[string]bool{}
	for _, r := range results {
		pt := perTest[r.test.Name]
		if pt == nil {
			pt = map[string]interface{}{"shards": 0, "evaluations": 0, "wall_s": 0.0}
			perTest[r.test.Name] = pt
		}
		pt["shards"] = pt["shards"].(int) + 1
		if r.dur.Seconds() > pt["wall_s"].(float64) {
			pt["wall_s"] = r.dur.Seconds()
		}
		if r.test.Kind == "fuzz" {
			n := parseFuzzExecs(r.out)
			evals += n
			pt["evaluations"] = pt["evaluations"].(int) + n
			pt["fuzz"] = true
			continue
		}
		if r.stats == nil {
			continue
		}
		evals += r.stats.Evaluations
		pt["evaluations"] = pt["evaluations"].(int) + r.stats.Evaluations
		for _, k := range r.stats.NonTrivial {
			nt[r.test.Name+"/"+k] = true
		}
		for k, v := range r.stats.Classes {
			classes[k] += v
		}
		for k, v := range r.stats.Excluded {
			excluded[k] += v
		}
		if len(samples) < 6 {
			for _, s := range r.stats.Samples {
				if len(samples) < 6 {
					samples = append(samples, s)
				}
			}
		}
		if r.stats.Rule != "" && !seenRule[r.stats.Rule] {
			seenRule[r.stats.Rule] = true
			rules = append(rules, r.test.Name+": "+r.stats.Rule)
		}
		if r.stats.Exhaustive {
			exhaustive = true
		}
		notes = append(notes, r.stats.Notes...)
	}
	if len(samples) == 0 {
		samples = []interface{}{"(no sample recorded)"}
	}
	rule := cfg.Rule
	if len(rules) > 0 {
		rule = strings.Join(rules, " || ")
	}
	cov := map[string]interface{}{
		"evaluations":         evals,
		"distinct_nontrivial": len(nt),
		"rule":                rule,
		"samples":             samples,
		"classes":             classes,
		"excluded_draws":      excluded,
		"per_test":            perTest,
		"replays_executed":    replayed,
		"known_findings":      knownLines,
		"notes":               notes,
	}
	if exhaustive {
		cov["exhaustive_part"] = true
	}
	if len(inconclusive) > 0 {
		cov["inconclusive"] = inconclusive
	}
	level := cfg.Level
	if level == "" {
		level = "exploration"
	}
	return map[string]interface{}{
		"property_id": id,
		"tier":        tier,
		"seed":        seed,
		"level":       level,
		"coverage":    cov,
		"assumptions": cfg.Assumptions,
		"wall_s":      wall.Seconds(),
		"violations":  violations,
	}
}

func parseFuzzExecs(out string) int {
	// lines look like: "fuzz: elapsed: 3s, execs: 12345 (4115/sec), new interesting: 2 (total: 5)"
	n := 0
	for _, line := range strings.Split(out, "\n") {
		i := strings.Index(line, "execs: ")
		if i < 0 {
			continue
		}
		rest := line[i+7:]
		j := strings.IndexByte(rest, ' ')
		if j < 0 {
			continue
		}
		if v, err := strconv.Atoi(rest[:j]); err == nil && v > n {
			n = v
		}
	}
	return n
}

func replayOne(id, bin, file string, known Known) int {
	abs, _ := filepath.Abs(file)
	dir := filepath.Join(root, ".work", id, "replay-one")
	_ = os.RemoveAll(dir)
	_ = os.MkdirAll(dir, 0o755)
	env := baseEnv(id, "quick", 0, dir, Known{}, map[string]string{"VERIF_REPLAY": abs})
	code, to, out := runProc(bin, []string{"-test.run", "^TestReplay$", "-test.count=1", "-test.v", "-test.timeout=600s"}, env, dir, 700*time.Second)
	say("%s", tail(out, 40))
	if to {
		return 2
	}
	if code != 0 {
		say("VIOLATION property=%s replay=%s", id, abs)
		return 1
	}
	say("replay passed: property=%s file=%s", id, abs)
	return 0
}
