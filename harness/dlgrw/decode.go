// Package dlgrw holds what the C12 (delegation pool) and C13 (block rewards) checks share:
// a decoder of generated transactions with the balance effects the transaction itself states,
// and a typed view of the delegation / reward records of a state dump. Nothing here predicts
// response codes; effects are applied only for transactions the node reported as successful.
package dlgrw

import (
	"encoding/json"
	"math/big"

	"github.com/Oneledger/protocol/action"
	adeleg "github.com/Oneledger/protocol/action/network_delegation"
	arew "github.com/Oneledger/protocol/action/rewards"
	astake "github.com/Oneledger/protocol/action/staking"
	"github.com/Oneledger/protocol/action/transfer"
	"github.com/Oneledger/protocol/data/keys"
	"github.com/Oneledger/protocol/serialize"
)

const (
	DelegPoolRaw  = "00000000000000000001"
	RewardPoolRaw = "rewardpool"
)

var (
	E18 = new(big.Int).Exp(big.NewInt(10), big.NewInt(18), nil)
	// DelegPool / RewardPool are the 0lt-prefixed renderings used in state keys.
	DelegPool  = keys.Address(DelegPoolRaw).String()
	RewardPool = keys.Address(RewardPoolRaw).String()
)

// DTx is a decoded generated transaction.
type DTx struct {
	Type    action.Type
	Kind    string
	Payer   string   // 0lt address of the first signature's key (the fee payer)
	Signers []string // 0lt addresses of all signature keys
	Price   *big.Int // fee price per gas unit
	PriceCu string

	From, To string // SEND / SENDPOOL: sender; SEND: receiver
	Pool     string // SENDPOOL pool name
	Addr     string // delegation kinds: the delegator; WITHDRAW_REWARD: signer address; STAKE/UNSTAKE: stake address
	Val      string // WITHDRAW_REWARD / STAKE / UNSTAKE: validator address
	Amt      *big.Int
	Cur      string
}

func addrOf(pk keys.PublicKey) string {
	h, err := pk.GetHandler()
	if err != nil {
		return ""
	}
	return h.Address().String()
}

// Decode parses the bytes of a signed transaction exactly as the node's deserialiser does.
func Decode(b []byte) (*DTx, bool) {
	stx := &action.SignedTx{}
	if err := serialize.GetSerializer(serialize.NETWORK).Deserialize(b, stx); err != nil {
		return nil, false
	}
	d := &DTx{Type: stx.Type, Kind: stx.Type.String(), Price: new(big.Int).Set(stx.Fee.Price.Value.BigInt()), PriceCu: stx.Fee.Price.Currency}
	for i, s := range stx.Signatures {
		a := addrOf(s.Signer)
		if i == 0 {
			d.Payer = a
		}
		d.Signers = append(d.Signers, a)
	}
	amt := func(a action.Amount) {
		d.Amt = new(big.Int).Set(a.Value.BigInt())
		d.Cur = a.Currency
	}
	switch stx.Type {
	case action.SEND:
		m := transfer.Send{}
		if json.Unmarshal(stx.Data, &m) != nil {
			return d, false
		}
		d.From, d.To = m.From.String(), m.To.String()
		amt(m.Amount)
	case action.SENDPOOL:
		m := transfer.SendPool{}
		if json.Unmarshal(stx.Data, &m) != nil {
			return d, false
		}
		d.From, d.Pool = m.From.String(), m.PoolName
		amt(m.Amount)
	case action.ADD_NETWORK_DELEGATE:
		m := adeleg.AddNetworkDelegation{}
		if json.Unmarshal(stx.Data, &m) != nil {
			return d, false
		}
		d.Addr = m.DelegationAddress.String()
		amt(m.Amount)
	case action.NETWORK_UNDELEGATE:
		m := adeleg.Undelegate{}
		if json.Unmarshal(stx.Data, &m) != nil {
			return d, false
		}
		d.Addr = m.Delegator.String()
		amt(m.Amount)
	case action.REWARDS_WITHDRAW_NETWORK_DELEGATE:
		m := adeleg.Withdraw{}
		if json.Unmarshal(stx.Data, &m) != nil {
			return d, false
		}
		d.Addr = m.Delegator.String()
		amt(m.Amount)
	case action.REWARDS_REINVEST_NETWORK_DELEGATE:
		m := adeleg.Reinvest{}
		if json.Unmarshal(stx.Data, &m) != nil {
			return d, false
		}
		d.Addr = m.Delegator.String()
		amt(m.Amount)
	case action.WITHDRAW_REWARD:
		m := arew.Withdraw{}
		if json.Unmarshal(stx.Data, &m) != nil {
			return d, false
		}
		d.Addr, d.Val = m.SignerAddress.String(), m.ValidatorAddress.String()
		amt(m.WithdrawAmount)
	case action.STAKE:
		m := astake.Stake{}
		if json.Unmarshal(stx.Data, &m) != nil {
			return d, false
		}
		d.Addr, d.Val = m.StakeAddress.String(), m.ValidatorAddress.String()
		amt(m.Stake)
	case action.UNSTAKE:
		m := astake.Unstake{}
		if json.Unmarshal(stx.Data, &m) != nil {
			return d, false
		}
		d.Addr, d.Val = m.StakeAddress.String(), m.ValidatorAddress.String()
		amt(m.Stake)
	default:
		return d, false
	}
	return d, true
}

// Effects is the OLT balance movement a successful transaction states for itself:
// per 0lt address the signed delta. Noisy lists addresses whose delta this model does not
// state exactly (the caller must not judge them in that block).
type Effects struct {
	Delta map[string]*big.Int
	Noisy map[string]bool
	All   bool // the kind is not modelled at all: nothing can be judged exactly in this block
}

func NewEffects() *Effects { return &Effects{Delta: map[string]*big.Int{}, Noisy: map[string]bool{}} }

func (e *Effects) add(addr string, v *big.Int) {
	if addr == "" {
		return
	}
	if e.Delta[addr] == nil {
		e.Delta[addr] = new(big.Int)
	}
	e.Delta[addr].Add(e.Delta[addr], v)
}

func neg(v *big.Int) *big.Int { return new(big.Int).Neg(v) }

func poolAddr(name string) string {
	switch name {
	case "DelegationPool":
		return DelegPool
	case "RewardsPool":
		return RewardPool
	case "BountyPool":
		return keys.Address("oneledgerBountyProgram").String()
	case "FeePool":
		return keys.Address("00000000000000000000").String()
	}
	return ""
}

// Apply adds the effects of one successful transaction (code 0, gasUsed from its response).
func (e *Effects) Apply(d *DTx, known bool, gasUsed int64) {
	if d == nil {
		e.All = true
		return
	}
	// the fee: price x gas used, charged to the first signer, in the price's currency
	if d.PriceCu == "OLT" {
		e.add(d.Payer, neg(new(big.Int).Mul(d.Price, big.NewInt(gasUsed))))
	} else if d.Price.Sign() != 0 {
		e.Noisy[d.Payer] = true
	}
	if !known {
		e.All = true
		return
	}
	olt := d.Cur == "OLT"
	switch d.Type {
	case action.SEND:
		if olt {
			e.add(d.From, neg(d.Amt))
			e.add(d.To, d.Amt)
		}
	case action.SENDPOOL:
		if olt {
			e.add(d.From, neg(d.Amt))
			if p := poolAddr(d.Pool); p != "" {
				e.add(p, d.Amt)
			}
		}
	case action.ADD_NETWORK_DELEGATE:
		e.add(d.Addr, neg(d.Amt))
		e.add(DelegPool, d.Amt)
	case action.NETWORK_UNDELEGATE:
		e.add(DelegPool, neg(d.Amt))
	case action.REWARDS_WITHDRAW_NETWORK_DELEGATE:
	case action.REWARDS_REINVEST_NETWORK_DELEGATE:
		e.add(DelegPool, d.Amt)
	case action.WITHDRAW_REWARD:
		// amount is in whole OLT; what a successful withdrawal moves is observed, not predicted
		e.Noisy[d.Addr] = true
		e.Noisy[RewardPool] = true
	case action.STAKE:
		if d.Amt.IsInt64() && d.Amt.Sign() >= 0 {
			e.add(d.Addr, neg(new(big.Int).Mul(d.Amt, E18)))
		} else {
			e.Noisy[d.Addr] = true
		}
	case action.UNSTAKE:
	}
}

// IsDonation reports whether the (successful) transaction moves coins into the delegation
// pool without creating an active delegation.
func (d *DTx) IsDonation() bool {
	if d == nil {
		return false
	}
	switch d.Type {
	case action.SEND:
		return d.To == DelegPool && d.Cur == "OLT"
	case action.SENDPOOL:
		return d.Pool == "DelegationPool" && d.Cur == "OLT"
	}
	return false
}
