package dlgrw

import (
	"fmt"
	"math/big"

	"github.com/Oneledger/protocol/consensus"
	"github.com/Oneledger/protocol/data/balance"
	"github.com/Oneledger/protocol/data/network_delegation"
	"github.com/Oneledger/protocol/serialize"

	"verif/hist"
	"verif/sim"
	"verif/txgen"
)

// PrePending is a pending undelegation pre-loaded through the genesis file (the
// net_delegators.pending_list a save_state dump carries; heights are block heights of the new chain).
type PrePending struct {
	User   int    `json:"user"`
	Height int64  `json:"height"`
	Amount string `json:"amount"`
}

// NewWorld is hist.NewWorld plus genesis pending lists: the genesis document built by
// sim.BuildGenesis is re-read with the repository's own (de)serialiser and written back with
// the extra list, as an operator editing the genesis file would.
func NewWorld(p sim.Params, pre []PrePending, roles []sim.Role) (*hist.World, error) {
	g := sim.BuildGenesis(p)
	if len(pre) > 0 {
		var st consensus.AppState
		if err := serialize.GetSerializer(serialize.JSON).Deserialize(g.Doc.AppState, &st); err != nil {
			return nil, fmt.Errorf("re-reading genesis state: %v", err)
		}
		for _, pp := range pre {
			a, ok := new(big.Int).SetString(pp.Amount, 10)
			if !ok {
				return nil, fmt.Errorf("bad pre-pending amount %q", pp.Amount)
			}
			c := sim.CurOLT.NewCoinFromAmount(*balance.NewAmountFromBigInt(a))
			addr := g.U.Users[pp.User%len(g.U.Users)].Addr
			st.NetDelegators.PendingList = append(st.NetDelegators.PendingList, network_delegation.PendingDelegator{
				Address: &addr, Amount: &c, Height: pp.Height,
			})
		}
		raw, err := st.RawJSON()
		if err != nil {
			return nil, err
		}
		g.Doc.AppState = raw
	}
	c := sim.NewChain(g)
	w := &hist.World{P: p, G: g, C: c, Fee: txgen.DefaultFee(), OlvmNext: map[string]uint64{}, EthNonce: map[string]uint64{}}
	for i, role := range roles {
		r, err := sim.NewReplica(fmt.Sprintf("n%d", i), g, c, role, "")
		if err != nil {
			w.Close()
			return nil, err
		}
		w.R = append(w.R, r)
	}
	return w, nil
}

// Pick draws an approximately uniform element of xs.
func Pick[T any](u *hist.U, xs []T, label string) T { return xs[u.N(len(xs), label)] }

// DrawEnv draws a block environment without byzantine evidence: gap from gaps (uniform), any
// proposer, absent signers with probability 1/absentOneIn (0 = never).
func DrawEnv(u *hist.U, gaps []int64, absentOneIn int, txs []txgen.Tx) sim.BlockSpec {
	spec := sim.BlockSpec{}
	spec.GapSecs = Pick(u, gaps, "gap")
	spec.ProposerIdx = u.N(16, "proposer")
	if absentOneIn > 0 && u.N(absentOneIn, "hasabsent") == 0 {
		na := u.Range(1, 2, "nabsent")
		for i := 0; i < na; i++ {
			spec.Absent = append(spec.Absent, u.N(16, "absent"))
		}
	}
	for _, tx := range txs {
		spec.Txs = append(spec.Txs, tx.Bytes)
	}
	if u.N(30, "restart") == 0 {
		spec.Restart = true // the node is stopped and started again before this block
	}
	return spec
}
