package dlgrw

import (
	"encoding/json"
	"fmt"
	"math/big"
	"sort"
	"strconv"
	"strings"

	"verif/hist"
)

// View reads the delegation and reward records out of a state dump by key prefix,
// independently of the repository's iterators. Any record it cannot parse is an error
// (Err), never silently skipped.
type View struct {
	M   map[string][]byte
	Err []string
}

func NewView(m map[string][]byte) *View { return &View{M: m} }

func (v *View) bad(k string, why string) {
	v.Err = append(v.Err, fmt.Sprintf("%q: %s", k, why))
}

func (v *View) amt(k string) *big.Int {
	b, ok := v.M[k]
	if !ok || len(b) == 0 {
		return new(big.Int)
	}
	var s string
	if err := json.Unmarshal(b, &s); err != nil {
		v.bad(k, "not a JSON string amount")
		return new(big.Int)
	}
	x, ok := new(big.Int).SetString(s, 10)
	if !ok {
		v.bad(k, "not a decimal amount")
		return new(big.Int)
	}
	return x
}

// Amt reads a record that is a JSON string amount (absent = 0).
func (v *View) Amt(key string) *big.Int { return v.amt(key) }

// Bal is the OLT balance of a 0lt address.
func (v *View) Bal(addr string) *big.Int { return v.amt("b_" + addr + "_OLT") }

// withPrefix calls fn(rest, value) for every key with the prefix, in sorted key order.
func (v *View) withPrefix(prefix string, fn func(k, rest string, val []byte)) {
	var ks []string
	for k := range v.M {
		if strings.HasPrefix(k, prefix) {
			ks = append(ks, k)
		}
	}
	sort.Strings(ks)
	for _, k := range ks {
		fn(k, k[len(prefix):], v.M[k])
	}
}

func (v *View) coin(k string, val []byte) *big.Int {
	var c struct {
		Currency struct {
			Name string `json:"name"`
		} `json:"currency"`
		Amount *string `json:"amount"`
	}
	if err := json.Unmarshal(val, &c); err != nil || c.Amount == nil {
		v.bad(k, "not a coin record")
		return new(big.Int)
	}
	if c.Currency.Name != "OLT" {
		v.bad(k, "coin currency "+c.Currency.Name)
	}
	return hist.CoinAmt(val)
}

// Active returns deleg_a_<addr> -> amount.
func (v *View) Active() map[string]*big.Int {
	out := map[string]*big.Int{}
	v.withPrefix("deleg_a_", func(k, rest string, val []byte) { out[rest] = v.coin(k, val) })
	return out
}

// HA is a (height, address) pair.
type HA struct {
	H    int64
	Addr string
}

func splitHA(rest string) (HA, bool) {
	i := strings.IndexByte(rest, '_')
	if i <= 0 {
		return HA{}, false
	}
	h, err := strconv.ParseInt(rest[:i], 10, 64)
	if err != nil {
		return HA{}, false
	}
	return HA{H: h, Addr: rest[i+1:]}, true
}

// Pending returns deleg_p_<h>_<addr> -> amount.
func (v *View) Pending() map[HA]*big.Int {
	out := map[HA]*big.Int{}
	v.withPrefix("deleg_p_", func(k, rest string, val []byte) {
		ha, ok := splitHA(rest)
		if !ok {
			v.bad(k, "pending key")
			return
		}
		out[ha] = v.coin(k, val)
	})
	return out
}

// RwBalance returns delegRwz_balance_<addr> -> amount.
func (v *View) RwBalance() map[string]*big.Int {
	out := map[string]*big.Int{}
	v.withPrefix("delegRwz_balance_", func(k, rest string, val []byte) { out[rest] = v.amt(k) })
	return out
}

// RwPending returns delegRwz_pending_<h>_<addr> -> amount.
func (v *View) RwPending() map[HA]*big.Int {
	out := map[HA]*big.Int{}
	v.withPrefix("delegRwz_pending_", func(k, rest string, val []byte) {
		ha, ok := splitHA(rest)
		if !ok {
			v.bad(k, "pending rewards key")
			return
		}
		out[ha] = v.amt(k)
	})
	return out
}

func (v *View) RwTotal() *big.Int { return v.amt("delegRwz_total_rewards") }

// Rwz returns per validator the sum of its reward chunks rwz_<val>_<index>.
func (v *View) Rwz() map[string]*big.Int {
	out := map[string]*big.Int{}
	v.withPrefix("rwz_", func(k, rest string, val []byte) {
		i := strings.LastIndexByte(rest, '_')
		if i <= 0 {
			v.bad(k, "reward chunk key")
			return
		}
		if _, err := strconv.ParseInt(rest[i+1:], 10, 64); err != nil {
			v.bad(k, "reward chunk index")
			return
		}
		a := rest[:i]
		if out[a] == nil {
			out[a] = new(big.Int)
		}
		out[a].Add(out[a], v.amt(k))
	})
	return out
}

func (v *View) CumBalance() map[string]*big.Int {
	out := map[string]*big.Int{}
	v.withPrefix("rwcum_balance_", func(k, rest string, val []byte) { out[rest] = v.amt(k) })
	return out
}

func (v *View) CumWithdrawn() map[string]*big.Int {
	out := map[string]*big.Int{}
	v.withPrefix("rwcum_withdrawn_", func(k, rest string, val []byte) { out[rest] = v.amt(k) })
	return out
}

// Maturity reads the network delegation option rewardsMaturityTime (g_<height rune>_networkdelegopt;
// the record with the greatest key is the latest update).
func (v *View) Maturity() int64 {
	m := int64(-1)
	v.withPrefix("g_", func(k, rest string, val []byte) {
		if !strings.HasSuffix(k, "_networkdelegopt") {
			return
		}
		var o struct {
			M *int64 `json:"rewardsMaturityTime"`
		}
		if err := json.Unmarshal(val, &o); err != nil || o.M == nil {
			v.bad(k, "network delegation option")
			return
		}
		m = *o.M
	})
	return m
}

// Sum adds up a map of amounts.
func Sum(m map[string]*big.Int) *big.Int {
	s := new(big.Int)
	for _, x := range m {
		s.Add(s, x)
	}
	return s
}

func SumHA(m map[HA]*big.Int) *big.Int {
	s := new(big.Int)
	for _, x := range m {
		s.Add(s, x)
	}
	return s
}
