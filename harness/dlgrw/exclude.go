package dlgrw

import (
	"math/big"

	"github.com/Oneledger/protocol/action"

	"verif/hist"
	"verif/txgen"
)

// Known findings owned by other properties (staking lifecycle, C10/C11) that end in a process
// death or a halted chain; their exclusion tags are honoured by construction here.
const (
	ExclZeroPowerStake = "STAKE:zero-power-record"            // C11: never stake on a record whose committed power is 0 (or whose record is gone while stake is locked)
	ExclGhostMember    = "UNSTAKE:to-zero-while-entering-set" // C10: never unstake to zero a validator that is not yet a settled member of the tendermint set
	ExclLastEligible   = "UNSTAKE:last-eligible-validator"    // C10: never let the set of electable validators become empty
)

func settled(w *hist.World, valAddr string) bool {
	in := func(has func(addr []byte) bool) bool { return has(addrBytes(valAddr)) }
	c := w.C
	if c.Last == nil || c.Vals == nil || c.Next == nil {
		return false
	}
	return in(c.Last.HasAddress) && in(c.Vals.HasAddress) && in(c.Next.HasAddress)
}

func addrBytes(olt string) []byte {
	b := make([]byte, 0, 20)
	s := olt
	if len(s) > 3 && s[:3] == "0lt" {
		s = s[3:]
	}
	for i := 0; i+1 < len(s); i += 2 {
		b = append(b, hexNib(s[i])<<4|hexNib(s[i+1]))
	}
	return b
}

func hexNib(c byte) byte {
	switch {
	case c >= '0' && c <= '9':
		return c - '0'
	case c >= 'a' && c <= 'f':
		return c - 'a' + 10
	case c >= 'A' && c <= 'F':
		return c - 'A' + 10
	}
	return 0
}

// ExcludedTx reports whether the transaction would construct one of the staking-lifecycle known
// findings in the world's committed state and the finding's exclusion is active.
func ExcludedTx(excluded func(string) bool, w *hist.World, tx txgen.Tx) bool {
	if tx.Kind != "STAKE" && tx.Kind != "UNSTAKE" {
		return false
	}
	d, ok := Decode(tx.Bytes)
	if !ok || d == nil {
		return false
	}
	var power int64 = -1
	for _, r := range w.ValRecs() {
		if r.Address.String() == d.Val {
			power = r.Power
		}
	}
	switch d.Type {
	case action.STAKE:
		zero := power == 0 || (power < 0 && hist.ParseAmt(w.Get("st__t_"+d.Val)).Sign() > 0)
		if zero && excluded(ExclZeroPowerStake) {
			return true
		}
	case action.UNSTAKE:
		if power > 0 && d.Amt.Cmp(big.NewInt(power)) >= 0 {
			if !settled(w, d.Val) && excluded(ExclGhostMember) {
				return true
			}
			if w.C.Next != nil && w.C.Next.Size() <= 2 && excluded(ExclLastEligible) {
				return true
			}
		}
	}
	return false
}

// FilterTxs drops the excluded transactions.
func FilterTxs(excluded func(string) bool, w *hist.World, txs []txgen.Tx) []txgen.Tx {
	out := txs[:0:0]
	for _, tx := range txs {
		if !ExcludedTx(excluded, w, tx) {
			out = append(out, tx)
		}
	}
	return out
}
